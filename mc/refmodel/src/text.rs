//! Independent JSON text recogniser/evaluator (RFC 8259) with an optional set of relaxations,
//! and a printer.  No dependency on jsonb, serde_json or fast-float.

use crate::val::{RNum, RVal};
use std::collections::BTreeMap;

#[derive(Clone, Copy, Debug, PartialEq, Eq)]
pub struct Dialect {
    /// raw control characters (< 0x20) allowed inside strings
    pub raw_controls: bool,
    /// `\u{XXXX}` with exactly four hex digits
    pub braced_unicode: bool,
    /// unpaired surrogate escapes are kept as the six literal characters `\uXXXX`
    pub lone_surrogates_literal: bool,
    /// form feed and the backslash-escaped forms `\n` `\t` `\r` `\x0C` count as whitespace
    pub lenient_ws: bool,
    /// out-of-range magnitudes become +/-infinity (otherwise: error)
    pub overflow_to_inf: bool,
}

pub const STRICT: Dialect = Dialect {
    raw_controls: false,
    braced_unicode: false,
    lone_surrogates_literal: false,
    lenient_ws: false,
    overflow_to_inf: false,
};

pub const RELAXED: Dialect = Dialect {
    raw_controls: true,
    braced_unicode: true,
    lone_surrogates_literal: true,
    lenient_ws: true,
    overflow_to_inf: true,
};

#[derive(Debug, Clone, PartialEq)]
pub struct Parsed {
    pub val: RVal,
    /// the text used a construct whose *value* the documents leave open (a lone surrogate
    /// written in the braced form); acceptance is still judged.
    pub value_unspecified: bool,
}

struct P<'a> {
    b: &'a [u8],
    i: usize,
    d: Dialect,
    unspec: bool,
    depth: usize,
}

pub const MAX_MODEL_DEPTH: usize = 2000;

type R<T> = Result<T, String>;

impl<'a> P<'a> {
    fn peek(&self) -> Option<u8> {
        self.b.get(self.i).copied()
    }
    fn ws(&mut self) {
        loop {
            match self.peek() {
                Some(b' ') | Some(b'\t') | Some(b'\n') | Some(b'\r') => self.i += 1,
                Some(0x0C) if self.d.lenient_ws => self.i += 1,
                Some(b'\\') if self.d.lenient_ws => {
                    let r = &self.b[self.i..];
                    if r.len() >= 2 && matches!(r[1], b'n' | b't' | b'r') {
                        self.i += 2;
                    } else if r.len() >= 4 && &r[1..4] == b"x0C" {
                        self.i += 4;
                    } else {
                        return;
                    }
                }
                _ => return,
            }
        }
    }
    fn lit(&mut self, s: &[u8]) -> R<()> {
        if self.b[self.i..].starts_with(s) {
            self.i += s.len();
            Ok(())
        } else {
            Err(format!("bad literal at {}", self.i))
        }
    }
    fn value(&mut self) -> R<RVal> {
        self.ws();
        match self.peek() {
            None => Err("eof".into()),
            Some(b'n') => self.lit(b"null").map(|_| RVal::Null),
            Some(b't') => self.lit(b"true").map(|_| RVal::Bool(true)),
            Some(b'f') => self.lit(b"false").map(|_| RVal::Bool(false)),
            Some(b'"') => self.string().map(RVal::Str),
            Some(b'[') => {
                self.depth += 1;
                if self.depth > MAX_MODEL_DEPTH {
                    return Err("model depth".into());
                }
                self.i += 1;
                let mut out = Vec::new();
                self.ws();
                if self.peek() == Some(b']') {
                    self.i += 1;
                    self.depth -= 1;
                    return Ok(RVal::Arr(out));
                }
                loop {
                    out.push(self.value()?);
                    self.ws();
                    match self.peek() {
                        Some(b',') => self.i += 1,
                        Some(b']') => {
                            self.i += 1;
                            break;
                        }
                        _ => return Err(format!("expected , or ] at {}", self.i)),
                    }
                }
                self.depth -= 1;
                Ok(RVal::Arr(out))
            }
            Some(b'{') => {
                self.depth += 1;
                if self.depth > MAX_MODEL_DEPTH {
                    return Err("model depth".into());
                }
                self.i += 1;
                let mut out = BTreeMap::new();
                self.ws();
                if self.peek() == Some(b'}') {
                    self.i += 1;
                    self.depth -= 1;
                    return Ok(RVal::Obj(out));
                }
                loop {
                    self.ws();
                    if self.peek() != Some(b'"') {
                        return Err(format!("expected key at {}", self.i));
                    }
                    let k = self.string()?;
                    self.ws();
                    if self.peek() != Some(b':') {
                        return Err(format!("expected : at {}", self.i));
                    }
                    self.i += 1;
                    let v = self.value()?;
                    out.insert(k, v); // last duplicate wins
                    self.ws();
                    match self.peek() {
                        Some(b',') => self.i += 1,
                        Some(b'}') => {
                            self.i += 1;
                            break;
                        }
                        _ => return Err(format!("expected , or }} at {}", self.i)),
                    }
                }
                self.depth -= 1;
                Ok(RVal::Obj(out))
            }
            Some(b'-') | Some(b'0'..=b'9') => self.number(),
            Some(c) => Err(format!("unexpected byte {:#x} at {}", c, self.i)),
        }
    }
    fn digits(&mut self) -> usize {
        let s = self.i;
        while matches!(self.peek(), Some(b'0'..=b'9')) {
            self.i += 1;
        }
        self.i - s
    }
    fn number(&mut self) -> R<RVal> {
        let start = self.i;
        let neg = self.peek() == Some(b'-');
        if neg {
            self.i += 1;
        }
        match self.peek() {
            Some(b'0') => {
                self.i += 1;
                if matches!(self.peek(), Some(b'0'..=b'9')) {
                    return Err("leading zero".into());
                }
            }
            Some(b'1'..=b'9') => {
                self.digits();
            }
            _ => return Err("digit expected".into()),
        }
        let mut integral = true;
        if self.peek() == Some(b'.') {
            integral = false;
            self.i += 1;
            if self.digits() == 0 {
                return Err("fraction digits expected".into());
            }
        }
        if matches!(self.peek(), Some(b'e') | Some(b'E')) {
            integral = false;
            self.i += 1;
            if matches!(self.peek(), Some(b'+') | Some(b'-')) {
                self.i += 1;
            }
            if self.digits() == 0 {
                return Err("exponent digits expected".into());
            }
        }
        let s = std::str::from_utf8(&self.b[start..self.i]).unwrap();
        if integral {
            // exact integer classification by decimal arithmetic
            let digits = if neg { &s[1..] } else { s };
            let mut acc: u128 = 0;
            let mut fits = digits.len() <= 30;
            if fits {
                for c in digits.bytes() {
                    acc = acc * 10 + (c - b'0') as u128;
                }
            }
            if fits {
                if !neg {
                    if acc <= u64::MAX as u128 {
                        return Ok(RVal::Num(RNum::U(acc as u64)));
                    }
                } else if acc <= (1u128 << 63) {
                    return Ok(RVal::Num(RNum::i((-(acc as i128)) as i64)));
                }
                fits = false;
            }
            let _ = fits;
        }
        // std's parse is correctly rounded and independent of fast-float2
        let f: f64 = s.parse().map_err(|_| "float parse".to_string())?;
        if f.is_infinite() && !self.d.overflow_to_inf {
            return Err("number out of double range".into());
        }
        Ok(RVal::Num(RNum::f(f)))
    }
    fn hex4(&mut self) -> R<u16> {
        let r = self.b.get(self.i..self.i + 4).ok_or("eof in \\u")?;
        let mut n: u16 = 0;
        for &c in r {
            let d = match c {
                b'0'..=b'9' => c - b'0',
                b'a'..=b'f' => c - b'a' + 10,
                b'A'..=b'F' => c - b'A' + 10,
                _ => return Err("bad hex".into()),
            };
            n = n * 16 + d as u16;
        }
        self.i += 4;
        Ok(n)
    }
    /// at `\u` (self.i points at the backslash): parse one unicode escape in either form,
    /// returning (code unit, the four hex digits as written, braced?)
    fn uesc(&mut self) -> R<(u16, [u8; 4], bool)> {
        debug_assert!(self.b[self.i] == b'\\' && self.b[self.i + 1] == b'u');
        self.i += 2;
        let braced = self.peek() == Some(b'{');
        if braced {
            if !self.d.braced_unicode {
                return Err("braced unicode escape".into());
            }
            self.i += 1;
        }
        let at = self.i;
        let n = self.hex4()?;
        let digits: [u8; 4] = self.b[at..at + 4].try_into().unwrap();
        if braced {
            if self.peek() != Some(b'}') {
                return Err("unterminated braced escape".into());
            }
            self.i += 1;
        }
        Ok((n, digits, braced))
    }
    fn string(&mut self) -> R<String> {
        debug_assert_eq!(self.peek(), Some(b'"'));
        self.i += 1;
        let mut out: Vec<u8> = Vec::new();
        loop {
            let c = self.peek().ok_or("eof in string")?;
            match c {
                b'"' => {
                    self.i += 1;
                    break;
                }
                b'\\' => {
                    let e = *self.b.get(self.i + 1).ok_or("eof after backslash")?;
                    let simple = match e {
                        b'"' => Some(b'"'),
                        b'\\' => Some(b'\\'),
                        b'/' => Some(b'/'),
                        b'b' => Some(0x08),
                        b'f' => Some(0x0C),
                        b'n' => Some(b'\n'),
                        b'r' => Some(b'\r'),
                        b't' => Some(b'\t'),
                        b'u' => None,
                        _ => return Err("bad escape".into()),
                    };
                    if let Some(x) = simple {
                        out.push(x);
                        self.i += 2;
                        continue;
                    }
                    let (n1, d1, br1) = self.uesc()?;
                    let mut push_lit = |out: &mut Vec<u8>, d: [u8; 4]| {
                        out.extend_from_slice(b"\\u");
                        out.extend_from_slice(&d);
                    };
                    match n1 {
                        0xDC00..=0xDFFF => {
                            if !self.d.lone_surrogates_literal {
                                return Err("lone low surrogate".into());
                            }
                            if br1 {
                                self.unspec = true;
                            }
                            push_lit(&mut out, d1);
                        }
                        0xD800..=0xDBFF => {
                            // paired only if immediately followed by an escape that is a low
                            // surrogate
                            let save = self.i;
                            let mut paired = false;
                            if self.b[self.i..].starts_with(b"\\u") {
                                if let Ok((n2, _d2, _)) = self.uesc() {
                                    if (0xDC00..=0xDFFF).contains(&n2) {
                                        let cp = 0x10000
                                            + (((n1 as u32) - 0xD800) << 10)
                                            + ((n2 as u32) - 0xDC00);
                                        let ch = char::from_u32(cp).unwrap();
                                        let mut tmp = [0u8; 4];
                                        out.extend_from_slice(ch.encode_utf8(&mut tmp).as_bytes());
                                        paired = true;
                                    }
                                }
                            }
                            if !paired {
                                self.i = save;
                                if !self.d.lone_surrogates_literal {
                                    return Err("lone high surrogate".into());
                                }
                                if br1 {
                                    self.unspec = true;
                                }
                                push_lit(&mut out, d1);
                            }
                        }
                        n => {
                            let ch = char::from_u32(n as u32).unwrap();
                            let mut tmp = [0u8; 4];
                            out.extend_from_slice(ch.encode_utf8(&mut tmp).as_bytes());
                        }
                    }
                }
                0x00..=0x1F => {
                    if !self.d.raw_controls {
                        return Err("raw control character".into());
                    }
                    out.push(c);
                    self.i += 1;
                }
                _ => {
                    out.push(c);
                    self.i += 1;
                }
            }
        }
        String::from_utf8(out).map_err(|_| "string not utf-8".to_string())
    }
}

pub fn parse_json(b: &[u8], d: Dialect) -> Result<Parsed, String> {
    let mut p = P {
        b,
        i: 0,
        d,
        unspec: false,
        depth: 0,
    };
    let v = p.value()?;
    p.ws();
    if p.i != b.len() {
        return Err(format!("trailing characters at {}", p.i));
    }
    Ok(Parsed {
        val: v,
        value_unspecified: p.unspec,
    })
}

pub fn strict_json(b: &[u8]) -> Result<RVal, String> {
    parse_json(b, STRICT).map(|p| p.val)
}

pub fn relaxed_json(b: &[u8]) -> Result<Parsed, String> {
    parse_json(b, RELAXED)
}

pub fn print_str(s: &str, out: &mut String) {
    out.push('"');
    for ch in s.chars() {
        match ch {
            '"' => out.push_str("\\\""),
            '\\' => out.push_str("\\\\"),
            '\u{08}' => out.push_str("\\b"),
            '\u{0C}' => out.push_str("\\f"),
            '\n' => out.push_str("\\n"),
            '\r' => out.push_str("\\r"),
            '\t' => out.push_str("\\t"),
            c if (c as u32) < 0x20 => out.push_str(&format!("\\u{:04x}", c as u32)),
            c => out.push(c),
        }
    }
    out.push('"');
}

pub fn print_num(n: &RNum, out: &mut String) {
    match *n {
        RNum::U(u) => out.push_str(&u.to_string()),
        RNum::I(i) => out.push_str(&i.to_string()),
        RNum::F(b) => {
            let f = f64::from_bits(b);
            assert!(f.is_finite(), "cannot print non-finite number as JSON");
            // `{:?}` is the shortest round-trip form and always a valid JSON number
            // (e.g. 1.0, 1e300, -0.0, 5e-324)
            out.push_str(&format!("{:?}", f));
        }
    }
}

/// alternative spellings of the same document: style 0 = `print`; style 1 = every character of
/// every string and key as \\uXXXX (lower-case hex, surrogate pairs), `, ` and `: ` separators;
/// style 2 = short escapes wherever one exists, INCLUDING the optional `\\/`, other control
/// characters as \\u00XX with upper-case hex, everything else raw
pub fn print_styled(v: &RVal, style: u8) -> String {
    fn s_out(s: &str, style: u8, out: &mut String) {
        match style {
            1 => {
                out.push('"');
                for u in s.encode_utf16() {
                    out.push_str(&format!("\\u{:04x}", u));
                }
                out.push('"');
            }
            2 | 3 => {
                out.push('"');
                for ch in s.chars() {
                    match ch {
                        '"' => out.push_str("\\\""),
                        '\\' => out.push_str("\\\\"),
                        '/' => out.push_str("\\/"),
                        '\u{08}' => out.push_str("\\b"),
                        '\u{0C}' => out.push_str("\\f"),
                        '\n' => out.push_str("\\n"),
                        '\r' => out.push_str("\\r"),
                        '\t' => out.push_str("\\t"),
                        c if (c as u32) < 0x20 => out.push_str(&format!("\\u{:04X}", c as u32)),
                        c => out.push(c),
                    }
                }
                out.push('"');
            }
            _ => print_str(s, out),
        }
    }
    fn rec(v: &RVal, style: u8, out: &mut String) {
        match v {
            RVal::Str(s) => s_out(s, style, out),
            RVal::Arr(a) => {
                out.push('[');
                for (i, x) in a.iter().enumerate() {
                    if i > 0 {
                        out.push_str(match style { 1 => ", ", 3 => "\r\n,\t", _ => "," });
                    }
                    rec(x, style, out);
                }
                if style == 3 {
                    out.push_str("\r\n");
                }
                out.push(']');
            }
            RVal::Obj(o) => {
                out.push('{');
                for (i, (k, x)) in o.iter().enumerate() {
                    if i > 0 {
                        out.push_str(match style { 1 => ", ", 3 => "\r\n,\t", _ => "," });
                    }
                    s_out(k, style, out);
                    out.push_str(match style { 1 => ": ", 3 => "\t:\r\n", _ => ":" });
                    rec(x, style, out);
                }
                if style == 3 {
                    out.push('\r');
                }
                out.push('}');
            }
            other => print_into(other, out),
        }
    }
    let mut out = String::new();
    rec(v, style, &mut out);
    if style == 3 {
        // style 3: CRLF / TAB / CR between tokens and a CRLF after the document
        out.push_str("\r\n");
    }
    out
}

/// compact RFC 8259 rendering (finite numbers only)
pub fn print(v: &RVal) -> String {
    let mut s = String::new();
    print_into(v, &mut s);
    s
}

pub fn print_into(v: &RVal, out: &mut String) {
    match v {
        RVal::Null => out.push_str("null"),
        RVal::Bool(true) => out.push_str("true"),
        RVal::Bool(false) => out.push_str("false"),
        RVal::Num(n) => print_num(n, out),
        RVal::Str(s) => print_str(s, out),
        RVal::Arr(a) => {
            out.push('[');
            for (i, x) in a.iter().enumerate() {
                if i > 0 {
                    out.push(',');
                }
                print_into(x, out);
            }
            out.push(']');
        }
        RVal::Obj(o) => {
            out.push('{');
            for (i, (k, x)) in o.iter().enumerate() {
                if i > 0 {
                    out.push(',');
                }
                print_str(k, out);
                out.push(':');
                print_into(x, out);
            }
            out.push('}');
        }
    }
}

/// Remove whitespace that is outside string literals (for the pretty == compact check).
pub fn strip_insignificant_ws(s: &str) -> String {
    let mut out = String::with_capacity(s.len());
    let mut in_str = false;
    let mut esc = false;
    for ch in s.chars() {
        if in_str {
            out.push(ch);
            if esc {
                esc = false;
            } else if ch == '\\' {
                esc = true;
            } else if ch == '"' {
                in_str = false;
            }
        } else if ch == '"' {
            in_str = true;
            out.push(ch);
        } else if !matches!(ch, ' ' | '\n' | '\t' | '\r') {
            out.push(ch);
        }
    }
    out
}

#[cfg(test)]
mod tests {
    use super::*;
    #[test]
    fn basics() {
        assert_eq!(strict_json(b"[1,-1,1.5,\"a\\u0041\"]").unwrap(),
            RVal::arr(vec![RVal::u(1), RVal::i(-1), RVal::f(1.5), RVal::s("aA")]));
        assert!(strict_json(b"[1,]").is_err());
        assert!(strict_json(b"01").is_err());
        assert!(strict_json(b"\"\x01\"").is_err());
        assert!(relaxed_json(b"\"\x01\"").is_ok());
        assert_eq!(relaxed_json(b"\"\\uD800\\u0041\"").unwrap().val, RVal::s("\\uD800A"));
        assert_eq!(relaxed_json(b"\"\\uD83C\\uDF95\"").unwrap().val, RVal::s("\u{1F395}"));
        assert_eq!(strict_json(b"18446744073709551615").unwrap(), RVal::u(u64::MAX));
        assert_eq!(strict_json(b"18446744073709551616").unwrap(), RVal::f(18446744073709551616.0));
        assert_eq!(strict_json(b"-9223372036854775808").unwrap(), RVal::i(i64::MIN));
        assert_eq!(strict_json(b"-0").unwrap(), RVal::u(0));
        assert_eq!(strict_json(b"{\"a\":1,\"a\":2}").unwrap(), RVal::obj(vec![("a", RVal::u(2))]));
        assert_eq!(print(&RVal::f(1e300)), "1e300");
        assert_eq!(print(&RVal::f(1.0)), "1.0");
    }
}
