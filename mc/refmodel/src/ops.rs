//! Document semantics on trees: what every byte-level function is supposed to compute.

use crate::val::{num_cmp, RNum, RVal};
use std::cmp::Ordering;
use std::collections::{BTreeMap, BTreeSet};

// ---------------------------------------------------------------------------------------------
// accessors

pub fn get_by_index(v: &RVal, i: usize) -> Option<RVal> {
    match v {
        RVal::Arr(a) => a.get(i).cloned(),
        _ => None,
    }
}

pub fn get_by_name(v: &RVal, name: &str, ignore_case: bool) -> Option<RVal> {
    match v {
        RVal::Obj(o) => {
            if let Some(x) = o.get(name) {
                return Some(x.clone());
            }
            if ignore_case {
                for (k, x) in o {
                    if k.eq_ignore_ascii_case(name) {
                        return Some(x.clone());
                    }
                }
            }
            None
        }
        _ => None,
    }
}

#[derive(Clone, Debug, PartialEq, Eq, Hash, PartialOrd, Ord)]
pub enum KP {
    Index(i32),
    Name(String),
    QuotedName(String),
}

impl KP {
    pub fn name(&self) -> Option<&str> {
        match self {
            KP::Name(s) | KP::QuotedName(s) => Some(s),
            _ => None,
        }
    }
}

fn resolve_index(len: usize, idx: i32) -> Option<usize> {
    let len = len as i64;
    let i = idx as i64;
    let j = if i < 0 { len + i } else { i };
    if j < 0 || j >= len {
        None
    } else {
        Some(j as usize)
    }
}

pub fn get_by_keypath(v: &RVal, path: &[KP]) -> Option<RVal> {
    let mut cur = v;
    for p in path {
        cur = match (p, cur) {
            (KP::Index(i), RVal::Arr(a)) => &a[resolve_index(a.len(), *i)?],
            (KP::Name(n) | KP::QuotedName(n), RVal::Obj(o)) => o.get(n)?,
            _ => return None,
        };
    }
    Some(cur.clone())
}

pub fn array_length(v: &RVal) -> Option<usize> {
    match v {
        RVal::Arr(a) => Some(a.len()),
        _ => None,
    }
}

pub fn object_keys(v: &RVal) -> Option<RVal> {
    match v {
        RVal::Obj(o) => Some(RVal::Arr(o.keys().map(|k| RVal::Str(k.clone())).collect())),
        _ => None,
    }
}

pub fn object_each(v: &RVal) -> Option<Vec<(String, RVal)>> {
    match v {
        RVal::Obj(o) => Some(o.iter().map(|(k, x)| (k.clone(), x.clone())).collect()),
        _ => None,
    }
}

pub fn array_values(v: &RVal) -> Option<Vec<RVal>> {
    match v {
        RVal::Arr(a) => Some(a.clone()),
        _ => None,
    }
}

pub fn type_of(v: &RVal) -> &'static str {
    match v {
        RVal::Null => "null",
        RVal::Bool(_) => "boolean",
        RVal::Num(_) => "number",
        RVal::Str(_) => "string",
        RVal::Arr(_) => "array",
        RVal::Obj(_) => "object",
    }
}

pub fn exists_key(v: &RVal, key: &str) -> bool {
    match v {
        RVal::Obj(o) => o.contains_key(key),
        RVal::Arr(a) => a.iter().any(|x| matches!(x, RVal::Str(s) if s == key)),
        _ => false,
    }
}

pub fn exists_all_keys(v: &RVal, keys: &[Vec<u8>]) -> bool {
    keys.iter().all(|k| match std::str::from_utf8(k) {
        Ok(k) => exists_key(v, k),
        Err(_) => false,
    })
}

pub fn exists_any_keys(v: &RVal, keys: &[Vec<u8>]) -> bool {
    keys.iter().any(|k| match std::str::from_utf8(k) {
        Ok(k) => exists_key(v, k),
        Err(_) => false,
    })
}

// ---------------------------------------------------------------------------------------------
// editors

#[derive(Clone, Debug, PartialEq, Eq)]
pub enum EditErr {
    InvalidJsonType,
    InvalidObject,
    ObjectDuplicateKey,
}

pub fn concat(l: &RVal, r: &RVal) -> RVal {
    match (l, r) {
        (RVal::Obj(a), RVal::Obj(b)) => {
            let mut m = a.clone();
            for (k, v) in b {
                m.insert(k.clone(), v.clone());
            }
            RVal::Obj(m)
        }
        (RVal::Arr(a), RVal::Arr(b)) => {
            let mut m = a.clone();
            m.extend(b.iter().cloned());
            RVal::Arr(m)
        }
        (x, RVal::Arr(b)) => {
            let mut m = vec![x.clone()];
            m.extend(b.iter().cloned());
            RVal::Arr(m)
        }
        (RVal::Arr(a), y) => {
            let mut m = a.clone();
            m.push(y.clone());
            RVal::Arr(m)
        }
        (x, y) => RVal::Arr(vec![x.clone(), y.clone()]),
    }
}

pub fn delete_by_name(v: &RVal, name: &str) -> Result<RVal, EditErr> {
    match v {
        RVal::Obj(o) => {
            let mut m = o.clone();
            m.remove(name);
            Ok(RVal::Obj(m))
        }
        RVal::Arr(a) => Ok(RVal::Arr(
            a.iter()
                .filter(|x| !matches!(x, RVal::Str(s) if s == name))
                .cloned()
                .collect(),
        )),
        _ => Err(EditErr::InvalidJsonType),
    }
}

pub fn delete_by_index(v: &RVal, idx: i32) -> Result<RVal, EditErr> {
    match v {
        RVal::Arr(a) => {
            let mut m = a.clone();
            if let Some(i) = resolve_index(a.len(), idx) {
                m.remove(i);
            }
            Ok(RVal::Arr(m))
        }
        _ => Err(EditErr::InvalidJsonType),
    }
}

fn del_path(v: &mut RVal, path: &[KP]) {
    if path.is_empty() {
        return;
    }
    match (v, &path[0]) {
        (RVal::Arr(a), KP::Index(i)) => {
            if let Some(j) = resolve_index(a.len(), *i) {
                if path.len() == 1 {
                    a.remove(j);
                } else {
                    del_path(&mut a[j], &path[1..]);
                }
            }
        }
        (RVal::Obj(o), KP::Name(n) | KP::QuotedName(n)) => {
            if path.len() == 1 {
                o.remove(n);
            } else if let Some(x) = o.get_mut(n) {
                del_path(x, &path[1..]);
            }
        }
        _ => {}
    }
}

pub fn delete_by_keypath(v: &RVal, path: &[KP]) -> Result<RVal, EditErr> {
    if v.is_scalar() {
        return Err(EditErr::InvalidJsonType);
    }
    let mut m = v.clone();
    del_path(&mut m, path);
    Ok(m)
}

pub fn as_list(v: &RVal) -> Vec<RVal> {
    match v {
        RVal::Arr(a) => a.clone(),
        x => vec![x.clone()],
    }
}

pub fn array_insert(v: &RVal, pos: i32, new: &RVal) -> RVal {
    let mut l = as_list(v);
    let len = l.len() as i64;
    let p = pos as i64;
    let idx = if p < 0 { len + p } else { p };
    let idx = idx.clamp(0, len) as usize;
    l.insert(idx, new.clone());
    RVal::Arr(l)
}

pub fn object_insert(v: &RVal, key: &str, new: &RVal, update: bool) -> Result<RVal, EditErr> {
    match v {
        RVal::Obj(o) => {
            if o.contains_key(key) && !update {
                return Err(EditErr::ObjectDuplicateKey);
            }
            let mut m = o.clone();
            m.insert(key.to_string(), new.clone());
            Ok(RVal::Obj(m))
        }
        _ => Err(EditErr::InvalidObject),
    }
}

pub fn object_delete(v: &RVal, keys: &BTreeSet<String>) -> Result<RVal, EditErr> {
    match v {
        RVal::Obj(o) => Ok(RVal::Obj(
            o.iter()
                .filter(|(k, _)| !keys.contains(*k))
                .map(|(k, x)| (k.clone(), x.clone()))
                .collect(),
        )),
        _ => Err(EditErr::InvalidObject),
    }
}

pub fn object_pick(v: &RVal, keys: &BTreeSet<String>) -> Result<RVal, EditErr> {
    match v {
        RVal::Obj(o) => Ok(RVal::Obj(
            o.iter()
                .filter(|(k, _)| keys.contains(*k))
                .map(|(k, x)| (k.clone(), x.clone()))
                .collect(),
        )),
        _ => Err(EditErr::InvalidObject),
    }
}

pub fn strip_nulls(v: &RVal) -> RVal {
    match v {
        RVal::Arr(a) => RVal::Arr(a.iter().map(strip_nulls).collect()),
        RVal::Obj(o) => RVal::Obj(
            o.iter()
                .filter(|(_, x)| !matches!(x, RVal::Null))
                .map(|(k, x)| (k.clone(), strip_nulls(x)))
                .collect(),
        ),
        x => x.clone(),
    }
}

pub fn build_array(parts: &[RVal]) -> RVal {
    RVal::Arr(parts.to_vec())
}

/// later duplicates win
pub fn build_object(parts: &[(String, RVal)]) -> RVal {
    let mut m = BTreeMap::new();
    for (k, v) in parts {
        m.insert(k.clone(), v.clone());
    }
    RVal::Obj(m)
}

// ---------------------------------------------------------------------------------------------
// ordering

fn rank(v: &RVal) -> u8 {
    match v {
        RVal::Null => 7,
        RVal::Arr(_) => 6,
        RVal::Obj(_) => 5,
        RVal::Str(_) => 4,
        RVal::Num(_) => 3,
        RVal::Bool(true) => 2,
        RVal::Bool(false) => 1,
    }
}

/// Null > Array > Object > String > Number > true > false; arrays element-wise then length;
/// objects key, value, ... in key order then size; numbers by exact value.
pub fn ref_cmp(a: &RVal, b: &RVal) -> Ordering {
    let (ra, rb) = (rank(a), rank(b));
    if ra != rb {
        return ra.cmp(&rb);
    }
    match (a, b) {
        (RVal::Num(x), RVal::Num(y)) => num_cmp(x, y),
        (RVal::Str(x), RVal::Str(y)) => x.as_bytes().cmp(y.as_bytes()),
        (RVal::Arr(x), RVal::Arr(y)) => {
            for (p, q) in x.iter().zip(y) {
                let o = ref_cmp(p, q);
                if o != Ordering::Equal {
                    return o;
                }
            }
            x.len().cmp(&y.len())
        }
        (RVal::Obj(x), RVal::Obj(y)) => {
            for ((kx, vx), (ky, vy)) in x.iter().zip(y) {
                let o = kx.as_bytes().cmp(ky.as_bytes());
                if o != Ordering::Equal {
                    return o;
                }
                let o = ref_cmp(vx, vy);
                if o != Ordering::Equal {
                    return o;
                }
            }
            x.len().cmp(&y.len())
        }
        _ => Ordering::Equal,
    }
}

// ---------------------------------------------------------------------------------------------
// containment (PostgreSQL @>)

fn scalar_eq(a: &RVal, b: &RVal) -> bool {
    a.is_scalar() && b.is_scalar() && ref_cmp(a, b) == Ordering::Equal
}

fn contains_nested(a: &RVal, b: &RVal) -> bool {
    match (a, b) {
        (RVal::Obj(x), RVal::Obj(y)) => y.iter().all(|(k, bv)| match x.get(k) {
            Some(av) => {
                if bv.is_scalar() {
                    scalar_eq(av, bv)
                } else {
                    contains_nested(av, bv)
                }
            }
            None => false,
        }),
        (RVal::Arr(x), RVal::Arr(y)) => y.iter().all(|be| {
            if be.is_scalar() {
                x.iter().any(|ae| scalar_eq(ae, be))
            } else {
                x.iter().any(|ae| ae.is_container() && contains_nested(ae, be))
            }
        }),
        (x, y) => scalar_eq(x, y),
    }
}

pub fn ref_contains(a: &RVal, b: &RVal) -> bool {
    if let (RVal::Arr(x), true) = (a, b.is_scalar()) {
        return x.iter().any(|ae| scalar_eq(ae, b));
    }
    contains_nested(a, b)
}

// ---------------------------------------------------------------------------------------------
// multiset array functions (identity = same RVal including number encoding)

pub fn array_distinct(v: &RVal) -> RVal {
    let mut seen: Vec<RVal> = Vec::new();
    for x in as_list(v) {
        if !seen.contains(&x) {
            seen.push(x);
        }
    }
    RVal::Arr(seen)
}

pub fn array_intersection(a: &RVal, b: &RVal) -> RVal {
    let mut pool = as_list(b);
    let mut out = Vec::new();
    for x in as_list(a) {
        if let Some(p) = pool.iter().position(|y| *y == x) {
            pool.remove(p);
            out.push(x);
        }
    }
    RVal::Arr(out)
}

pub fn array_except(a: &RVal, b: &RVal) -> RVal {
    let mut pool = as_list(b);
    let mut out = Vec::new();
    for x in as_list(a) {
        if let Some(p) = pool.iter().position(|y| *y == x) {
            pool.remove(p);
        } else {
            out.push(x);
        }
    }
    RVal::Arr(out)
}

pub fn array_overlap(a: &RVal, b: &RVal) -> bool {
    let lb = as_list(b);
    as_list(a).iter().any(|x| lb.contains(x))
}

// ---------------------------------------------------------------------------------------------
// casts (tree answers)

pub fn as_number(v: &RVal) -> Option<RNum> {
    match v {
        RVal::Num(n) => Some(*n),
        _ => None,
    }
}
