//! Reference value model. Independent of the `jsonb` crate.
//!
//! `RVal`'s derived `Eq`/`Hash`/`Ord` are *identity* (same JSON value in the same number
//! encoding).  Semantic comparisons live in `ops.rs` (`ref_cmp`) and `num_cmp` below.

use std::cmp::Ordering;
use std::collections::BTreeMap;

/// A number in one of the three stored representations.  Normal form: `I(0)` never occurs
/// (the format stores every integer zero as the 1-byte ZERO form which decodes unsigned) and
/// every NaN is the canonical quiet NaN.
#[derive(Clone, Copy, PartialEq, Eq, Hash, PartialOrd, Ord, Debug)]
pub enum RNum {
    U(u64),
    I(i64),
    /// f64 bit pattern
    F(u64),
}

impl RNum {
    pub fn f(x: f64) -> RNum {
        if x.is_nan() {
            RNum::F(f64::NAN.to_bits())
        } else {
            RNum::F(x.to_bits())
        }
    }
    pub fn i(x: i64) -> RNum {
        if x == 0 {
            RNum::U(0)
        } else {
            RNum::I(x)
        }
    }
    pub fn u(x: u64) -> RNum {
        RNum::U(x)
    }
    pub fn as_float(&self) -> Option<f64> {
        match self {
            RNum::F(b) => Some(f64::from_bits(*b)),
            _ => None,
        }
    }
    pub fn as_int(&self) -> Option<i128> {
        match self {
            RNum::U(u) => Some(*u as i128),
            RNum::I(i) => Some(*i as i128),
            RNum::F(_) => None,
        }
    }
    pub fn is_finite(&self) -> bool {
        match self {
            RNum::F(b) => f64::from_bits(*b).is_finite(),
            _ => true,
        }
    }
    /// Width in bytes of the shortest compact encoding (1, 2, 3, 5 or 9).
    pub fn shortest_width(&self) -> usize {
        match *self {
            RNum::U(0) | RNum::I(0) => 1,
            RNum::U(u) => {
                if u <= 0xFF {
                    2
                } else if u <= 0xFFFF {
                    3
                } else if u <= 0xFFFF_FFFF {
                    5
                } else {
                    9
                }
            }
            RNum::I(i) => {
                if (-128..=127).contains(&i) {
                    2
                } else if (-32768..=32767).contains(&i) {
                    3
                } else if (-2147483648..=2147483647).contains(&i) {
                    5
                } else {
                    9
                }
            }
            RNum::F(b) => {
                let f = f64::from_bits(b);
                if f.is_nan() || f.is_infinite() {
                    1
                } else {
                    9
                }
            }
        }
    }
    /// exact i64 view or None
    pub fn view_i64(&self) -> Option<i64> {
        match *self {
            RNum::I(i) => Some(i),
            RNum::U(u) => {
                if u <= i64::MAX as u64 {
                    Some(u as i64)
                } else {
                    None
                }
            }
            RNum::F(_) => None,
        }
    }
    /// "exact or absent, never a different value": an integer that fits must be present and exact, one
    /// that does not fit must be absent; for a float the documents leave open whether an integral
    /// value is offered as an integer, so both None and the exact integer are admissible
    pub fn view_i64_admissible(&self, got: Option<i64>) -> bool {
        match *self {
            RNum::F(b) => match got {
                None => true,
                Some(x) => {
                    let f = f64::from_bits(b);
                    f.is_finite() && f.fract() == 0.0 && f.abs() < 1e30 && f as i128 == x as i128
                }
            },
            _ => got == self.view_i64(),
        }
    }
    pub fn view_u64_admissible(&self, got: Option<u64>) -> bool {
        match *self {
            RNum::F(b) => match got {
                None => true,
                Some(x) => {
                    let f = f64::from_bits(b);
                    f.is_finite() && f.fract() == 0.0 && f.abs() < 1e30 && f as i128 == x as i128
                }
            },
            _ => got == self.view_u64(),
        }
    }
    pub fn view_u64(&self) -> Option<u64> {
        match *self {
            RNum::U(u) => Some(u),
            RNum::I(i) => {
                if i >= 0 {
                    Some(i as u64)
                } else {
                    None
                }
            }
            RNum::F(_) => None,
        }
    }
}

/// Compare integer n with finite-or-infinite (non-NaN) float f by exact mathematical value.
fn cmp_int_float(n: i128, f: f64) -> Ordering {
    debug_assert!(!f.is_nan());
    if f == f64::INFINITY {
        return Ordering::Less;
    }
    if f == f64::NEG_INFINITY {
        return Ordering::Greater;
    }
    // 2^64 and -2^63 are exactly representable.
    if f >= 18446744073709551616.0 {
        return Ordering::Less;
    }
    if f < -9223372036854775808.0 {
        return Ordering::Greater;
    }
    let t = f.trunc();
    let ti = t as i128; // exact: |t| <= 2^64 and integer valued
    match n.cmp(&ti) {
        Ordering::Equal => {
            // compare 0 with fractional part
            if f > t {
                Ordering::Less
            } else if f < t {
                Ordering::Greater
            } else {
                Ordering::Equal
            }
        }
        o => o,
    }
}

/// Total order on numbers by exact mathematical value; NaN is greatest and equal to itself,
/// -0.0 equals 0.0.
pub fn num_cmp(a: &RNum, b: &RNum) -> Ordering {
    match (a.as_int(), b.as_int()) {
        (Some(x), Some(y)) => x.cmp(&y),
        (Some(x), None) => {
            let f = b.as_float().unwrap();
            if f.is_nan() {
                Ordering::Less
            } else {
                cmp_int_float(x, f)
            }
        }
        (None, Some(y)) => {
            let f = a.as_float().unwrap();
            if f.is_nan() {
                Ordering::Greater
            } else {
                cmp_int_float(y, f).reverse()
            }
        }
        (None, None) => {
            let x = a.as_float().unwrap();
            let y = b.as_float().unwrap();
            match (x.is_nan(), y.is_nan()) {
                (true, true) => Ordering::Equal,
                (true, false) => Ordering::Greater,
                (false, true) => Ordering::Less,
                (false, false) => x.partial_cmp(&y).unwrap(),
            }
        }
    }
}

/// Is `f` a nearest double to the integer n?  Decided in integer arithmetic: no neighbouring
/// double is strictly closer.  (Ties: either neighbour is accepted.)
pub fn is_nearest_double(n: i128, f: f64) -> bool {
    if !f.is_finite() {
        return false;
    }
    if f != f.trunc() {
        // a non-integral double can only be nearest to an integer if |n| < 2^53, where the
        // integer itself is representable -> f must then equal n exactly.
        return false;
    }
    if f.abs() > 3.5e19 {
        return false;
    }
    let fi = f as i128;
    let d = (fi - n).abs();
    if d == 0 {
        return true;
    }
    let up = next_up(f);
    let dn = next_down(f);
    let du = if up.is_finite() && up == up.trunc() && up.abs() < 3.5e19 {
        ((up as i128) - n).abs()
    } else {
        i128::MAX
    };
    let dd = if dn.is_finite() && dn == dn.trunc() && dn.abs() < 3.5e19 {
        ((dn as i128) - n).abs()
    } else {
        i128::MAX
    };
    // if a neighbour is non-integral it is within 1 of f, and |n| >= 2^53 cannot be: handled
    // by requiring d < 1 impossible (d is integer >= 1) => such f is not nearest.
    if up != up.trunc() || dn != dn.trunc() {
        return false;
    }
    d <= du && d <= dd
}

pub fn next_up(f: f64) -> f64 {
    if f.is_nan() || f == f64::INFINITY {
        return f;
    }
    if f == 0.0 {
        return f64::from_bits(1);
    }
    let b = f.to_bits();
    if f > 0.0 {
        f64::from_bits(b + 1)
    } else {
        f64::from_bits(b - 1)
    }
}

pub fn next_down(f: f64) -> f64 {
    -next_up(-f)
}

#[derive(Clone, PartialEq, Eq, Hash, PartialOrd, Ord, Debug)]
pub enum RVal {
    Null,
    Bool(bool),
    Num(RNum),
    Str(String),
    Arr(Vec<RVal>),
    Obj(BTreeMap<String, RVal>),
}

impl RVal {
    pub fn u(x: u64) -> RVal {
        RVal::Num(RNum::U(x))
    }
    pub fn i(x: i64) -> RVal {
        RVal::Num(RNum::i(x))
    }
    pub fn f(x: f64) -> RVal {
        RVal::Num(RNum::f(x))
    }
    pub fn s(x: &str) -> RVal {
        RVal::Str(x.to_string())
    }
    pub fn arr(v: Vec<RVal>) -> RVal {
        RVal::Arr(v)
    }
    pub fn obj(v: Vec<(&str, RVal)>) -> RVal {
        RVal::Obj(v.into_iter().map(|(k, v)| (k.to_string(), v)).collect())
    }
    pub fn is_scalar(&self) -> bool {
        !matches!(self, RVal::Arr(_) | RVal::Obj(_))
    }
    pub fn is_container(&self) -> bool {
        !self.is_scalar()
    }
    pub fn depth(&self) -> usize {
        match self {
            RVal::Arr(a) => 1 + a.iter().map(|x| x.depth()).max().unwrap_or(0),
            RVal::Obj(o) => 1 + o.values().map(|x| x.depth()).max().unwrap_or(0),
            _ => 0,
        }
    }
    pub fn all_finite(&self) -> bool {
        match self {
            RVal::Num(n) => n.is_finite(),
            RVal::Arr(a) => a.iter().all(|x| x.all_finite()),
            RVal::Obj(o) => o.values().all(|x| x.all_finite()),
            _ => true,
        }
    }
    /// every non-negative integer is stored unsigned (what the text parser produces)
    pub fn nonneg_ints_unsigned(&self) -> bool {
        match self {
            RVal::Num(RNum::I(i)) => *i < 0,
            RVal::Arr(a) => a.iter().all(|x| x.nonneg_ints_unsigned()),
            RVal::Obj(o) => o.values().all(|x| x.nonneg_ints_unsigned()),
            _ => true,
        }
    }
    pub fn node_count(&self) -> usize {
        match self {
            RVal::Arr(a) => 1 + a.iter().map(|x| x.node_count()).sum::<usize>(),
            RVal::Obj(o) => 1 + o.values().map(|x| x.node_count()).sum::<usize>(),
            _ => 1,
        }
    }
    /// all strings (keys and string values) as a sorted multiset
    pub fn all_strings(&self, out: &mut Vec<String>) {
        match self {
            RVal::Str(s) => out.push(s.clone()),
            RVal::Arr(a) => a.iter().for_each(|x| x.all_strings(out)),
            RVal::Obj(o) => {
                for (k, v) in o {
                    out.push(k.clone());
                    v.all_strings(out);
                }
            }
            _ => {}
        }
    }
    /// Same JSON value?  (numbers by exact mathematical value across encodings)
    pub fn json_eq(&self, other: &RVal) -> bool {
        match (self, other) {
            (RVal::Null, RVal::Null) => true,
            (RVal::Bool(a), RVal::Bool(b)) => a == b,
            (RVal::Num(a), RVal::Num(b)) => num_cmp(a, b) == Ordering::Equal,
            (RVal::Str(a), RVal::Str(b)) => a == b,
            (RVal::Arr(a), RVal::Arr(b)) => {
                a.len() == b.len() && a.iter().zip(b).all(|(x, y)| x.json_eq(y))
            }
            (RVal::Obj(a), RVal::Obj(b)) => {
                a.len() == b.len()
                    && a.iter()
                        .zip(b)
                        .all(|((ka, va), (kb, vb))| ka == kb && va.json_eq(vb))
            }
            _ => false,
        }
    }
}

#[cfg(test)]
mod tests {
    use super::*;
    #[test]
    fn cmp_basics() {
        let big = RNum::I((1i64 << 53) + 1);
        let f = RNum::f(9007199254740992.0);
        assert_eq!(num_cmp(&big, &f), Ordering::Greater);
        assert_eq!(num_cmp(&RNum::I(1i64 << 53), &f), Ordering::Equal);
        assert_eq!(num_cmp(&RNum::U(u64::MAX), &RNum::f(18446744073709551616.0)), Ordering::Less);
        assert_eq!(num_cmp(&RNum::U(0), &RNum::f(-0.0)), Ordering::Equal);
        assert_eq!(num_cmp(&RNum::U(0), &RNum::f(0.5)), Ordering::Less);
        assert_eq!(num_cmp(&RNum::I(-1), &RNum::f(-0.5)), Ordering::Less);
        assert_eq!(num_cmp(&RNum::f(f64::NAN), &RNum::f(f64::INFINITY)), Ordering::Greater);
        assert!(is_nearest_double((1i128 << 53) + 1, 9007199254740992.0));
        assert!(is_nearest_double((1i128 << 53) + 1, 9007199254740994.0));
        assert!(!is_nearest_double((1i128 << 53) + 3, 9007199254740992.0));
        assert!(is_nearest_double(u64::MAX as i128, 18446744073709551616.0));
        assert!(is_nearest_double(5, 5.0));
        assert!(!is_nearest_double(5, 5.5));
    }
}
