//! Renders a JSONPath AST into text with explicit optional-whitespace slots, keyword case,
//! name quoting and operator spelling variants (for the syntax check C09).
use crate::jpath::*;

#[derive(Clone, Debug)]
pub enum Piece {
    Tok(String),
    Slot,
}

#[derive(Clone, Copy, Debug, PartialEq, Eq)]
pub struct Style {
    /// 0 lower, 1 UPPER, 2 Mixed — for `last` and `to`
    pub kwcase: u8,
    /// write names after `.`/`:` as quoted strings
    pub quote_names: bool,
    /// spell != as <>
    pub ne_as_ltgt: bool,
    /// add redundant parentheses around && inside ||
    pub extra_parens: bool,
}

pub const PLAIN: Style = Style { kwcase: 0, quote_names: false, ne_as_ltgt: false, extra_parens: false };

fn kw(w: &str, c: u8) -> String {
    match c {
        0 => w.to_string(),
        1 => w.to_uppercase(),
        _ => w.chars().enumerate().map(|(i, ch)| if i % 2 == 0 { ch.to_ascii_uppercase() } else { ch }).collect(),
    }
}

fn t(out: &mut Vec<Piece>, s: &str) {
    out.push(Piece::Tok(s.to_string()));
}

fn idx(i: &Idx, st: Style, out: &mut Vec<Piece>) {
    match i {
        Idx::N(n) => t(out, &n.to_string()),
        Idx::Last(0) => t(out, &kw("last", st.kwcase)),
        Idx::Last(k) => {
            t(out, &kw("last", st.kwcase));
            out.push(Piece::Slot);
            t(out, if *k < 0 { "-" } else { "+" });
            out.push(Piece::Slot);
            t(out, &(*k as i64).abs().to_string());
        }
    }
}

fn name(n: &str, st: Style) -> String {
    if st.quote_names {
        format!("\"{}\"", n)
    } else {
        n.to_string()
    }
}

pub fn step(s: &Step, st: Style, out: &mut Vec<Piece>) {
    match s {
        Step::Root => t(out, "$"),
        Step::Current => t(out, "@"),
        Step::DotWild => t(out, ".*"),
        Step::BracketWild => {
            t(out, "[");
            out.push(Piece::Slot);
            t(out, "*");
            out.push(Piece::Slot);
            t(out, "]");
        }
        Step::Dot(n) => t(out, &format!(".{}", name(n, st))),
        Step::Colon(n) => t(out, &format!(":{}", name(n, st))),
        Step::ObjField(n) => {
            t(out, "[");
            out.push(Piece::Slot);
            t(out, &format!("\"{}\"", n));
            out.push(Piece::Slot);
            t(out, "]");
        }
        Step::Indices(v) => {
            t(out, "[");
            for (k, a) in v.iter().enumerate() {
                if k > 0 {
                    t(out, ",");
                }
                out.push(Piece::Slot);
                match a {
                    AIdx::One(i) => idx(i, st, out),
                    AIdx::Slice(s, e) => {
                        idx(s, st, out);
                        out.push(Piece::Slot);
                        t(out, &kw("to", st.kwcase));
                        out.push(Piece::Slot);
                        idx(e, st, out);
                    }
                }
                out.push(Piece::Slot);
            }
            t(out, "]");
        }
        Step::Filter(e) => {
            t(out, "?");
            out.push(Piece::Slot);
            t(out, "(");
            out.push(Piece::Slot);
            expr(e, st, out);
            out.push(Piece::Slot);
            t(out, ")");
        }
        Step::Predicate(e) => expr(e, st, out),
    }
}

pub fn steps(v: &[Step], st: Style, out: &mut Vec<Piece>) {
    for (k, s) in v.iter().enumerate() {
        if k > 0 {
            out.push(Piece::Slot);
        }
        step(s, st, out);
    }
}

fn paren(e: &Expr, st: Style, out: &mut Vec<Piece>) {
    t(out, "(");
    out.push(Piece::Slot);
    expr(e, st, out);
    out.push(Piece::Slot);
    t(out, ")");
}

pub fn expr(e: &Expr, st: Style, out: &mut Vec<Piece>) {
    match e {
        Expr::Paths(p) => steps(p, st, out),
        Expr::Lit(l) => t(out, &print_lit(l)),
        Expr::Cmp(c, l, r) => {
            expr(l, st, out);
            out.push(Piece::Slot);
            t(out, if *c == Cmp::Ne && st.ne_as_ltgt { "<>" } else { print_cmp(*c) });
            out.push(Piece::Slot);
            expr(r, st, out);
        }
        Expr::And(l, r) => {
            // left-assoc: And(And(a,b),c) prints a && b && c ; an Or operand needs parentheses;
            // a right-nested And needs them too to keep the shape
            match &**l {
                Expr::Or(..) => paren(l, st, out),
                _ => expr(l, st, out),
            }
            out.push(Piece::Slot);
            t(out, "&&");
            out.push(Piece::Slot);
            match &**r {
                Expr::Or(..) | Expr::And(..) => paren(r, st, out),
                _ => expr(r, st, out),
            }
        }
        Expr::Or(l, r) => {
            match &**l {
                Expr::And(..) if st.extra_parens => paren(l, st, out),
                _ => expr(l, st, out),
            }
            out.push(Piece::Slot);
            t(out, "||");
            out.push(Piece::Slot);
            match &**r {
                Expr::Or(..) => paren(r, st, out),
                Expr::And(..) if st.extra_parens => paren(r, st, out),
                _ => expr(r, st, out),
            }
        }
        Expr::Exists(p) => {
            t(out, "exists");
            out.push(Piece::Slot);
            t(out, "(");
            out.push(Piece::Slot);
            steps(p, st, out);
            out.push(Piece::Slot);
            t(out, ")");
        }
        Expr::ArithUnary(op, x) => {
            t(out, &op.to_string());
            out.push(Piece::Slot);
            expr(x, st, out);
        }
        Expr::ArithBinary(op, l, r) => {
            expr(l, st, out);
            out.push(Piece::Slot);
            t(out, &op.to_string());
            out.push(Piece::Slot);
            expr(r, st, out);
        }
    }
}

pub fn pieces(p: &JPath, st: Style) -> Vec<Piece> {
    let mut out = vec![Piece::Slot];
    steps(&p.0, st, &mut out);
    out.push(Piece::Slot);
    out
}

pub fn n_slots(ps: &[Piece]) -> usize {
    ps.iter().filter(|p| matches!(p, Piece::Slot)).count()
}

/// fill slot k with ws(k)
pub fn fill(ps: &[Piece], ws: &dyn Fn(usize) -> &'static str) -> String {
    let mut out = String::new();
    let mut k = 0;
    for p in ps {
        match p {
            Piece::Tok(s) => out.push_str(s),
            Piece::Slot => {
                out.push_str(ws(k));
                k += 1;
            }
        }
    }
    out
}

/// adjacent tokens that would fuse without whitespace (e.g. `last` followed by `to`... never in
/// this grammar: every keyword is delimited by punctuation or digits) — kept for clarity
pub fn all_renderings(p: &JPath, max_full_slots: usize) -> Vec<String> {
    let mut out = vec![];
    let ps = pieces(p, PLAIN);
    let n = n_slots(&ps);
    if n <= max_full_slots {
        for mask in 0u32..(1 << n) {
            out.push(fill(&ps, &|k| if mask & (1 << k) != 0 { " " } else { "" }));
        }
    } else {
        out.push(fill(&ps, &|_| ""));
        out.push(fill(&ps, &|_| " "));
        for s in 0..n {
            out.push(fill(&ps, &|k| if k == s { " " } else { "" }));
        }
    }
    // other whitespace characters, each slot singly
    for s in 0..n {
        out.push(fill(&ps, &|k| if k == s { "\t" } else { "" }));
        out.push(fill(&ps, &|k| if k == s { "\n" } else { "" }));
    }
    for st in [
        Style { kwcase: 1, ..PLAIN },
        Style { kwcase: 2, ..PLAIN },
        Style { quote_names: true, ..PLAIN },
        Style { ne_as_ltgt: true, ..PLAIN },
        Style { extra_parens: true, ..PLAIN },
        Style { kwcase: 1, quote_names: true, ne_as_ltgt: true, extra_parens: true },
    ] {
        let ps = pieces(p, st);
        out.push(fill(&ps, &|_| ""));
        out.push(fill(&ps, &|_| " "));
    }
    out.sort();
    out.dedup();
    out
}
