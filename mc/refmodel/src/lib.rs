pub fn hi() {}
