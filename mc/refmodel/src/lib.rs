//! Reference model for the jsonb verification harness.  This crate deliberately has NO
//! dependency on the `jsonb` crate: it is written from README.md, the rustdoc comments,
//! RFC 8259 and the property statements.
pub mod gen;
pub mod jgen;
pub mod jparse;
pub mod jpath;
pub mod jrender;
pub mod layout;
pub mod ops;
pub mod text;
pub mod val;

pub use val::{RNum, RVal};
