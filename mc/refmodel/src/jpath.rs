//! Reference model of the SQL/JSONPath subset documented in README.md: own AST, canonical
//! printer and a tree evaluator returning items in document order with repetitions.
//! Three-valued where the documents are silent (comparisons across kinds other than `==`).

use crate::val::{num_cmp, RNum, RVal};
use std::cmp::Ordering;

#[derive(Clone, Debug, PartialEq, Eq, Hash)]
pub enum Idx {
    N(i32),
    Last(i32),
}

#[derive(Clone, Debug, PartialEq, Eq, Hash)]
pub enum AIdx {
    One(Idx),
    Slice(Idx, Idx),
}

#[derive(Clone, Debug, PartialEq, Eq, Hash)]
pub enum Step {
    Root,
    Current,
    DotWild,
    BracketWild,
    Dot(String),
    Colon(String),
    ObjField(String),
    Indices(Vec<AIdx>),
    Filter(Box<Expr>),
    Predicate(Box<Expr>),
}

#[derive(Clone, Debug, PartialEq, Eq, Hash)]
pub enum Lit {
    Null,
    Bool(bool),
    Num(RNum),
    Str(String),
}

#[derive(Clone, Copy, Debug, PartialEq, Eq, Hash)]
pub enum Cmp {
    Eq,
    Ne,
    Lt,
    Le,
    Gt,
    Ge,
}

#[derive(Clone, Debug, PartialEq, Eq, Hash)]
pub enum Expr {
    Paths(Vec<Step>),
    Lit(Lit),
    Cmp(Cmp, Box<Expr>, Box<Expr>),
    And(Box<Expr>, Box<Expr>),
    Or(Box<Expr>, Box<Expr>),
    Exists(Vec<Step>),
    ArithUnary(char, Box<Expr>),
    ArithBinary(char, Box<Expr>, Box<Expr>),
}

#[derive(Clone, Debug, PartialEq, Eq, Hash)]
pub struct JPath(pub Vec<Step>);

impl JPath {
    pub fn is_predicate(&self) -> bool {
        self.0.len() == 1 && matches!(self.0[0], Step::Predicate(_))
    }
}

// ---------------------------------------------------------------------------------------------
// canonical printer (names unquoted after `.`/`:`; caller guarantees they are simple)

pub fn print_idx(i: &Idx) -> String {
    match i {
        Idx::N(n) => n.to_string(),
        Idx::Last(0) => "last".into(),
        Idx::Last(k) if *k > 0 => format!("last+{}", k),
        Idx::Last(k) => format!("last{}", k),
    }
}

pub fn print_lit(l: &Lit) -> String {
    match l {
        Lit::Null => "null".into(),
        Lit::Bool(b) => b.to_string(),
        Lit::Num(n) => {
            let mut s = String::new();
            crate::text::print_num(n, &mut s);
            s
        }
        Lit::Str(s) => format!("\"{}\"", s),
    }
}

pub fn print_step(s: &Step) -> String {
    match s {
        Step::Root => "$".into(),
        Step::Current => "@".into(),
        Step::DotWild => ".*".into(),
        Step::BracketWild => "[*]".into(),
        Step::Dot(n) => format!(".{}", n),
        Step::Colon(n) => format!(":{}", n),
        Step::ObjField(n) => format!("[\"{}\"]", n),
        Step::Indices(v) => {
            let parts: Vec<String> = v
                .iter()
                .map(|a| match a {
                    AIdx::One(i) => print_idx(i),
                    AIdx::Slice(s, e) => format!("{} to {}", print_idx(s), print_idx(e)),
                })
                .collect();
            format!("[{}]", parts.join(", "))
        }
        Step::Filter(e) => format!("?({})", print_expr(e)),
        Step::Predicate(e) => print_expr(e),
    }
}

pub fn print_steps(v: &[Step]) -> String {
    v.iter().map(print_step).collect()
}

pub fn print_cmp(c: Cmp) -> &'static str {
    match c {
        Cmp::Eq => "==",
        Cmp::Ne => "!=",
        Cmp::Lt => "<",
        Cmp::Le => "<=",
        Cmp::Gt => ">",
        Cmp::Ge => ">=",
    }
}

pub fn print_expr(e: &Expr) -> String {
    let paren = |x: &Expr| match x {
        Expr::And(..) | Expr::Or(..) => format!("({})", print_expr(x)),
        _ => print_expr(x),
    };
    match e {
        Expr::Paths(p) => print_steps(p),
        Expr::Lit(l) => print_lit(l),
        Expr::Cmp(c, l, r) => format!("{} {} {}", print_expr(l), print_cmp(*c), print_expr(r)),
        Expr::And(l, r) => format!("{} && {}", paren(l), paren(r)),
        Expr::Or(l, r) => format!("{} || {}", paren(l), paren(r)),
        Expr::Exists(p) => format!("exists({})", print_steps(p)),
        Expr::ArithUnary(op, x) => format!("{}{}", op, print_expr(x)),
        Expr::ArithBinary(op, l, r) => format!("{} {} {}", print_expr(l), op, print_expr(r)),
    }
}

pub fn print_path(p: &JPath) -> String {
    print_steps(&p.0)
}

/// The same path written with as few parentheses as the documented precedence allows (`&&` binds
/// tighter than `||`; both are associative in meaning): `a || b && c` for Or(a, And(b, c)).
/// It denotes the same items, though chains of one operator may come back grouped differently.
pub fn print_path_min_parens(p: &JPath) -> String {
    fn ex(e: &Expr) -> String {
        match e {
            Expr::And(l, r) => {
                let side = |x: &Expr| if matches!(x, Expr::Or(..)) { format!("({})", ex(x)) } else { ex(x) };
                format!("{} && {}", side(l), side(r))
            }
            Expr::Or(l, r) => format!("{} || {}", ex(l), ex(r)),
            Expr::Exists(p) => format!("exists({})", steps(p)),
            Expr::Paths(p) => steps(p),
            Expr::Cmp(c, l, r) => format!("{} {} {}", ex(l), print_cmp(*c), ex(r)),
            other => print_expr(other),
        }
    }
    fn steps(v: &[Step]) -> String {
        v.iter()
            .map(|s| match s {
                Step::Filter(e) => format!("?({})", ex(e)),
                Step::Predicate(e) => ex(e),
                other => print_step(other),
            })
            .collect()
    }
    steps(&p.0)
}

// ---------------------------------------------------------------------------------------------
// evaluator

#[derive(Clone, Copy, Debug, PartialEq, Eq)]
pub enum Tri {
    T,
    F,
    U,
}

impl Tri {
    fn and(self, o: Tri) -> Tri {
        match (self, o) {
            (Tri::F, _) | (_, Tri::F) => Tri::F,
            (Tri::T, Tri::T) => Tri::T,
            _ => Tri::U,
        }
    }
    fn or(self, o: Tri) -> Tri {
        match (self, o) {
            (Tri::T, _) | (_, Tri::T) => Tri::T,
            (Tri::F, Tri::F) => Tri::F,
            _ => Tri::U,
        }
    }
}

#[derive(Debug, Clone, PartialEq)]
pub enum EvalResult {
    /// items in order; `bool` = certain (false: the documents leave open whether it is kept)
    Items(Vec<(RVal, bool)>),
    Predicate(Tri),
    /// the path contains arithmetic, which the evaluator does not support: must be an error
    Unsupported,
}

fn has_arith(e: &Expr) -> bool {
    match e {
        Expr::ArithUnary(..) | Expr::ArithBinary(..) => true,
        Expr::Cmp(_, l, r) | Expr::And(l, r) | Expr::Or(l, r) => has_arith(l) || has_arith(r),
        Expr::Paths(p) | Expr::Exists(p) => steps_have_arith(p),
        Expr::Lit(_) => false,
    }
}

fn steps_have_arith(p: &[Step]) -> bool {
    p.iter().any(|s| match s {
        Step::Filter(e) | Step::Predicate(e) => has_arith(e),
        _ => false,
    })
}

fn resolve(i: &Idx, len: i64) -> i64 {
    match i {
        Idx::N(n) => *n as i64,
        Idx::Last(k) => len - 1 + *k as i64,
    }
}

type Seq<'a> = Vec<(&'a RVal, bool)>;

fn apply_step<'a>(step: &Step, cur: Seq<'a>, root: &'a RVal) -> Seq<'a> {
    let mut out: Seq<'a> = vec![];
    match step {
        Step::Root | Step::Current => return cur,
        Step::Filter(e) | Step::Predicate(e) => {
            for (v, c) in cur {
                match eval_expr(e, root, v) {
                    Tri::T => out.push((v, c)),
                    Tri::U => out.push((v, false)),
                    Tri::F => {}
                }
            }
        }
        Step::DotWild => {
            for (v, c) in cur {
                if let RVal::Obj(o) = v {
                    for x in o.values() {
                        out.push((x, c));
                    }
                }
            }
        }
        Step::BracketWild => {
            for (v, c) in cur {
                match v {
                    RVal::Arr(a) => {
                        for x in a {
                            out.push((x, c));
                        }
                    }
                    other => out.push((other, c)),
                }
            }
        }
        Step::Dot(n) | Step::Colon(n) | Step::ObjField(n) => {
            for (v, c) in cur {
                if let RVal::Obj(o) = v {
                    if let Some(x) = o.get(n) {
                        out.push((x, c));
                    }
                }
            }
        }
        Step::Indices(ix) => {
            for (v, c) in cur {
                if let RVal::Arr(a) = v {
                    let len = a.len() as i64;
                    for ai in ix {
                        match ai {
                            AIdx::One(i) => {
                                let k = resolve(i, len);
                                if k >= 0 && k < len {
                                    out.push((&a[k as usize], c));
                                }
                            }
                            AIdx::Slice(s, e) => {
                                let (s, e) = (resolve(s, len), resolve(e, len));
                                if s > e || s >= len || e < 0 {
                                    continue;
                                }
                                let s = s.max(0);
                                let e = e.min(len - 1);
                                for k in s..=e {
                                    out.push((&a[k as usize], c));
                                }
                            }
                        }
                    }
                }
            }
        }
    }
    out
}

fn find<'a>(steps: &[Step], root: &'a RVal, current: &'a RVal) -> Seq<'a> {
    let start: &'a RVal = if matches!(steps.first(), Some(Step::Current)) { current } else { root };
    let mut cur: Seq<'a> = vec![(start, true)];
    for s in steps {
        cur = apply_step(s, cur, root);
    }
    cur
}

fn cmp_scalars(op: Cmp, a: &RVal, b: &RVal) -> Tri {
    let ord: Option<Ordering> = match (a, b) {
        (RVal::Null, RVal::Null) => Some(Ordering::Equal),
        (RVal::Bool(x), RVal::Bool(y)) => Some(x.cmp(y)),
        (RVal::Num(x), RVal::Num(y)) => Some(num_cmp(x, y)),
        (RVal::Str(x), RVal::Str(y)) => Some(x.as_bytes().cmp(y.as_bytes())),
        _ => None,
    };
    match ord {
        Some(o) => {
            let r = match op {
                Cmp::Eq => o == Ordering::Equal,
                Cmp::Ne => o != Ordering::Equal,
                Cmp::Lt => o == Ordering::Less,
                Cmp::Le => o != Ordering::Greater,
                Cmp::Gt => o == Ordering::Greater,
                Cmp::Ge => o != Ordering::Less,
            };
            if r {
                Tri::T
            } else {
                Tri::F
            }
        }
        None => match op {
            Cmp::Eq => Tri::F,
            _ => Tri::U, // not defined by the documents across kinds
        },
    }
}

fn lit_val(l: &Lit) -> RVal {
    match l {
        Lit::Null => RVal::Null,
        Lit::Bool(b) => RVal::Bool(*b),
        Lit::Num(n) => RVal::Num(*n),
        Lit::Str(s) => RVal::Str(s.clone()),
    }
}

/// operand values: scalars only (containers satisfy no comparison); bool = certain
fn operand(e: &Expr, root: &RVal, current: &RVal) -> Vec<(RVal, bool)> {
    match e {
        Expr::Lit(l) => vec![(lit_val(l), true)],
        Expr::Paths(p) => find(p, root, current)
            .into_iter()
            .filter(|(v, _)| v.is_scalar())
            .map(|(v, c)| (v.clone(), c))
            .collect(),
        _ => vec![],
    }
}

pub fn eval_expr(e: &Expr, root: &RVal, current: &RVal) -> Tri {
    match e {
        Expr::And(l, r) => eval_expr(l, root, current).and(eval_expr(r, root, current)),
        Expr::Or(l, r) => eval_expr(l, root, current).or(eval_expr(r, root, current)),
        Expr::Cmp(op, l, r) => {
            let ls = operand(l, root, current);
            let rs = operand(r, root, current);
            let mut res = Tri::F;
            for (a, ca) in &ls {
                for (b, cb) in &rs {
                    let mut t = cmp_scalars(*op, a, b);
                    if t == Tri::T && !(*ca && *cb) {
                        t = Tri::U;
                    }
                    res = res.or(t);
                }
            }
            res
        }
        Expr::Exists(p) => {
            let items = find(p, root, current);
            if items.iter().any(|(_, c)| *c) {
                Tri::T
            } else if items.is_empty() {
                Tri::F
            } else {
                Tri::U
            }
        }
        // bare operands / arithmetic are not boolean expressions
        _ => Tri::U,
    }
}

fn is_arith(e: &Expr) -> bool {
    matches!(e, Expr::ArithUnary(..) | Expr::ArithBinary(..))
}

/// does evaluating `steps` certainly have to evaluate an arithmetic expression for some item?
fn steps_reach<'a>(steps: &[Step], root: &'a RVal, current: &'a RVal) -> bool {
    let start: &'a RVal = if matches!(steps.first(), Some(Step::Current)) { current } else { root };
    let mut cur: Seq<'a> = vec![(start, true)];
    for s in steps {
        if let Step::Filter(e) | Step::Predicate(e) = s {
            if cur.iter().any(|(v, c)| *c && expr_reach(e, root, v)) {
                return true;
            }
        }
        cur = apply_step(s, cur, root);
    }
    false
}

fn expr_reach(e: &Expr, root: &RVal, cur: &RVal) -> bool {
    // does this operand certainly yield at least one value (so that a comparison has to be made)?
    let yields = |x: &Expr| match x {
        Expr::Lit(_) => true,
        Expr::Paths(p) => !steps_have_arith(p) && find(p, root, cur).iter().any(|(_, c)| *c),
        _ => false,
    };
    let operand = |x: &Expr| match x {
        Expr::Paths(p) => steps_reach(p, root, cur),
        _ => false,
    };
    match e {
        Expr::ArithUnary(..) | Expr::ArithBinary(..) => true,
        Expr::Cmp(_, l, r) => {
            if is_arith(l) && is_arith(r) {
                true
            } else if is_arith(l) {
                yields(r)
            } else if is_arith(r) {
                yields(l)
            } else {
                operand(l) || operand(r)
            }
        }
        // whether the second operand of a connective is evaluated is not documented
        Expr::And(..) | Expr::Or(..) => false,
        Expr::Exists(p) | Expr::Paths(p) => steps_reach(p, root, cur),
        Expr::Lit(_) => false,
    }
}

/// For a path with arithmetic: is there an item for which the evaluator certainly has to evaluate
/// the arithmetic expression?  (Then "a path the evaluator cannot handle is reported as an error"
/// applies; otherwise nothing may ever reach the expression and the outcome is not determined.)
pub fn arith_must_be_evaluated(path: &JPath, doc: &RVal) -> bool {
    steps_reach(&path.0, doc, doc)
}

pub fn eval(path: &JPath, doc: &RVal) -> EvalResult {
    if steps_have_arith(&path.0) {
        return EvalResult::Unsupported;
    }
    if path.is_predicate() {
        if let Step::Predicate(e) = &path.0[0] {
            return EvalResult::Predicate(eval_expr(e, doc, doc));
        }
    }
    EvalResult::Items(find(&path.0, doc, doc).into_iter().map(|(v, c)| (v.clone(), c)).collect())
}

/// does the observed item sequence match the model sequence (optional items may be absent)?
pub fn seq_matches(model: &[(RVal, bool)], observed: &[RVal]) -> bool {
    // dp[j] = set of observed prefix lengths reachable after consuming model[..i]
    let mut reach = vec![false; observed.len() + 1];
    reach[0] = true;
    for (v, certain) in model {
        let mut next = vec![false; observed.len() + 1];
        for j in 0..=observed.len() {
            if !reach[j] {
                continue;
            }
            if j < observed.len() && observed[j] == *v {
                next[j + 1] = true;
            }
            if !*certain {
                next[j] = true;
            }
        }
        reach = next;
    }
    reach[observed.len()]
}

#[cfg(test)]
mod tests {
    use super::*;
    #[test]
    fn basics() {
        let doc = RVal::obj(vec![("a", RVal::arr(vec![RVal::u(1), RVal::u(2), RVal::s("x")])), ("b", RVal::u(2))]);
        let p = JPath(vec![Step::Root, Step::Dot("a".into()), Step::Indices(vec![AIdx::Slice(Idx::N(0), Idx::Last(0)), AIdx::One(Idx::N(0))])]);
        match eval(&p, &doc) {
            EvalResult::Items(v) => assert_eq!(v.len(), 4),
            _ => panic!(),
        }
        let f = JPath(vec![
            Step::Root,
            Step::Dot("a".into()),
            Step::BracketWild,
            Step::Filter(Box::new(Expr::Cmp(Cmp::Eq, Box::new(Expr::Paths(vec![Step::Current])), Box::new(Expr::Paths(vec![Step::Root, Step::Dot("b".into())]))))),
        ]);
        assert_eq!(eval(&f, &doc), EvalResult::Items(vec![(RVal::u(2), true)]));
        assert_eq!(print_path(&f), "$.a[*]?(@ == $.b)");
        assert!(seq_matches(&[(RVal::u(1), false), (RVal::u(1), true)], &[RVal::u(1)]));
        assert!(!seq_matches(&[(RVal::u(1), true), (RVal::u(1), true)], &[RVal::u(1)]));
    }
}
