//! Independent encoder and strict validator for the JSONB layout, written from README.md.
//!
//! Layout (big endian):
//!   container header  u32 = type(3 bits: 0x2.. scalar, 0x4.. object, 0x8.. array) | count(29)
//!   entry word        u32 = 0 (length flag) | type(3 bits) | payload length (28 bits)
//!   array   : header, N entry words, N payloads
//!   object  : header, N key entry words, N value entry words, N key payloads, N value payloads
//!   scalar  : header 0x20000000, 1 entry word, payload
//!   number payload: 1 tag byte (0x00 zero, 0x10 NaN, 0x20 +inf, 0x30 -inf, 0x40 int, 0x50 uint,
//!   0x60 float) followed by 0/1/2/4/8 big-endian bytes, shortest form.

use crate::val::{RNum, RVal};
use std::collections::BTreeMap;

pub const H_SCALAR: u32 = 0x2000_0000;
pub const H_OBJECT: u32 = 0x4000_0000;
pub const H_ARRAY: u32 = 0x8000_0000;
pub const E_NULL: u32 = 0x0000_0000;
pub const E_STRING: u32 = 0x1000_0000;
pub const E_NUMBER: u32 = 0x2000_0000;
pub const E_FALSE: u32 = 0x3000_0000;
pub const E_TRUE: u32 = 0x4000_0000;
pub const E_CONTAINER: u32 = 0x5000_0000;

pub fn enc_num(n: &RNum) -> Vec<u8> {
    let mut out = Vec::with_capacity(9);
    match *n {
        RNum::U(0) | RNum::I(0) => out.push(0x00),
        RNum::U(u) => {
            out.push(0x50);
            if u < 1 << 8 {
                out.push(u as u8);
            } else if u < 1 << 16 {
                out.extend_from_slice(&(u as u16).to_be_bytes());
            } else if u < 1 << 32 {
                out.extend_from_slice(&(u as u32).to_be_bytes());
            } else {
                out.extend_from_slice(&u.to_be_bytes());
            }
        }
        RNum::I(i) => {
            out.push(0x40);
            if i8::try_from(i).is_ok() {
                out.push(i as i8 as u8);
            } else if i16::try_from(i).is_ok() {
                out.extend_from_slice(&(i as i16).to_be_bytes());
            } else if i32::try_from(i).is_ok() {
                out.extend_from_slice(&(i as i32).to_be_bytes());
            } else {
                out.extend_from_slice(&i.to_be_bytes());
            }
        }
        RNum::F(b) => {
            let f = f64::from_bits(b);
            if f.is_nan() {
                out.push(0x10);
            } else if f == f64::INFINITY {
                out.push(0x20);
            } else if f == f64::NEG_INFINITY {
                out.push(0x30);
            } else {
                out.push(0x60);
                out.extend_from_slice(&b.to_be_bytes());
            }
        }
    }
    out
}

/// (entry word, payload) of a value as it appears inside a container
fn enc_inner(v: &RVal) -> (u32, Vec<u8>) {
    match v {
        RVal::Null => (E_NULL, vec![]),
        RVal::Bool(false) => (E_FALSE, vec![]),
        RVal::Bool(true) => (E_TRUE, vec![]),
        RVal::Num(n) => {
            let p = enc_num(n);
            (E_NUMBER | p.len() as u32, p)
        }
        RVal::Str(s) => (E_STRING | s.len() as u32, s.as_bytes().to_vec()),
        RVal::Arr(_) | RVal::Obj(_) => {
            let p = enc_container(v);
            (E_CONTAINER | p.len() as u32, p)
        }
    }
}

fn enc_container(v: &RVal) -> Vec<u8> {
    let mut words: Vec<u32> = Vec::new();
    let mut payload: Vec<u8> = Vec::new();
    match v {
        RVal::Arr(a) => {
            words.push(H_ARRAY | a.len() as u32);
            for x in a {
                let (w, p) = enc_inner(x);
                words.push(w);
                payload.extend_from_slice(&p);
            }
        }
        RVal::Obj(o) => {
            words.push(H_OBJECT | o.len() as u32);
            for k in o.keys() {
                words.push(E_STRING | k.len() as u32);
                payload.extend_from_slice(k.as_bytes());
            }
            for x in o.values() {
                let (w, p) = enc_inner(x);
                words.push(w);
                payload.extend_from_slice(&p);
            }
        }
        _ => unreachable!(),
    }
    let mut out = Vec::with_capacity(words.len() * 4 + payload.len());
    for w in words {
        out.extend_from_slice(&w.to_be_bytes());
    }
    out.extend_from_slice(&payload);
    out
}

/// The encoding of a complete document.
pub fn enc(v: &RVal) -> Vec<u8> {
    match v {
        RVal::Arr(_) | RVal::Obj(_) => enc_container(v),
        _ => {
            let (w, p) = enc_inner(v);
            let mut out = Vec::with_capacity(8 + p.len());
            out.extend_from_slice(&H_SCALAR.to_be_bytes());
            out.extend_from_slice(&w.to_be_bytes());
            out.extend_from_slice(&p);
            out
        }
    }
}

/// Strict number payload decoder: shortest form only.
pub fn strict_dec_num(p: &[u8]) -> Result<RNum, String> {
    if p.is_empty() {
        return Err("empty number payload".into());
    }
    let tag = p[0];
    let rest = &p[1..];
    let n = match tag {
        0x00 => {
            if !rest.is_empty() {
                return Err("zero tag with payload".into());
            }
            RNum::U(0)
        }
        0x10 | 0x20 | 0x30 => {
            if !rest.is_empty() {
                return Err("nan/inf tag with payload".into());
            }
            match tag {
                0x10 => RNum::f(f64::NAN),
                0x20 => RNum::f(f64::INFINITY),
                _ => RNum::f(f64::NEG_INFINITY),
            }
        }
        0x40 => {
            let v: i64 = match rest.len() {
                1 => rest[0] as i8 as i64,
                2 => i16::from_be_bytes([rest[0], rest[1]]) as i64,
                4 => i32::from_be_bytes(rest.try_into().unwrap()) as i64,
                8 => i64::from_be_bytes(rest.try_into().unwrap()),
                l => return Err(format!("int payload of {} bytes", l)),
            };
            if v == 0 {
                return Err("integer zero not in ZERO form".into());
            }
            RNum::I(v)
        }
        0x50 => {
            let v: u64 = match rest.len() {
                1 => rest[0] as u64,
                2 => u16::from_be_bytes([rest[0], rest[1]]) as u64,
                4 => u32::from_be_bytes(rest.try_into().unwrap()) as u64,
                8 => u64::from_be_bytes(rest.try_into().unwrap()),
                l => return Err(format!("uint payload of {} bytes", l)),
            };
            if v == 0 {
                return Err("integer zero not in ZERO form".into());
            }
            RNum::U(v)
        }
        0x60 => {
            if rest.len() != 8 {
                return Err(format!("float payload of {} bytes", rest.len()));
            }
            let f = f64::from_be_bytes(rest.try_into().unwrap());
            if f.is_nan() || f.is_infinite() {
                return Err("nan/inf in float form".into());
            }
            RNum::F(f.to_bits())
        }
        t => return Err(format!("unknown number tag {:#x}", t)),
    };
    if n.shortest_width() != p.len() {
        return Err(format!(
            "number not in shortest form: {} bytes, shortest {}",
            p.len(),
            n.shortest_width()
        ));
    }
    Ok(n)
}

fn rd(b: &[u8], off: usize) -> Result<u32, String> {
    b.get(off..off + 4)
        .map(|s| u32::from_be_bytes(s.try_into().unwrap()))
        .ok_or_else(|| format!("truncated word at {}", off))
}

fn dec_entry(b: &[u8], word: u32, off: usize) -> Result<(RVal, usize), String> {
    if word & 0x8000_0000 != 0 {
        return Err(format!("entry word {:#x} has offset flag", word));
    }
    let ty = word & 0x7000_0000;
    let len = (word & 0x0FFF_FFFF) as usize;
    let p = b
        .get(off..off + len)
        .ok_or_else(|| format!("payload [{}..{}) out of bounds", off, off + len))?;
    let v = match ty {
        E_NULL | E_FALSE | E_TRUE => {
            if len != 0 {
                return Err("null/bool entry with non-zero length".into());
            }
            match ty {
                E_NULL => RVal::Null,
                E_FALSE => RVal::Bool(false),
                _ => RVal::Bool(true),
            }
        }
        E_STRING => RVal::Str(
            std::str::from_utf8(p)
                .map_err(|_| "string not utf-8".to_string())?
                .to_string(),
        ),
        E_NUMBER => RVal::Num(strict_dec_num(p)?),
        E_CONTAINER => {
            let (v, used) = dec_container(p)?;
            if used != len {
                return Err(format!(
                    "nested container entry length {} but container occupies {}",
                    len, used
                ));
            }
            v
        }
        t => return Err(format!("illegal entry type {:#x}", t)),
    };
    Ok((v, len))
}

/// decode a non-scalar container at the start of `b`; returns value and bytes used
fn dec_container(b: &[u8]) -> Result<(RVal, usize), String> {
    let h = rd(b, 0)?;
    let ty = h & 0xE000_0000;
    let n = (h & 0x1FFF_FFFF) as usize;
    match ty {
        H_ARRAY => {
            if b.len() < 4 + 4 * n {
                return Err("array entry table truncated".into());
            }
            let mut off = 4 + 4 * n;
            let mut out = Vec::with_capacity(n);
            for i in 0..n {
                let w = rd(b, 4 + 4 * i)?;
                let (v, l) = dec_entry(b, w, off)?;
                off += l;
                out.push(v);
            }
            Ok((RVal::Arr(out), off))
        }
        H_OBJECT => {
            if b.len() < 4 + 8 * n {
                return Err("object entry table truncated".into());
            }
            let mut off = 4 + 8 * n;
            let mut keys: Vec<String> = Vec::with_capacity(n);
            for i in 0..n {
                let w = rd(b, 4 + 4 * i)?;
                if w & 0xF000_0000 != E_STRING {
                    return Err("object key entry is not a string".into());
                }
                let (v, l) = dec_entry(b, w, off)?;
                off += l;
                match v {
                    RVal::Str(s) => {
                        if let Some(prev) = keys.last() {
                            if prev.as_bytes() >= s.as_bytes() {
                                return Err(format!(
                                    "object keys not strictly ascending: {:?} then {:?}",
                                    prev, s
                                ));
                            }
                        }
                        keys.push(s)
                    }
                    _ => unreachable!(),
                }
            }
            let mut out = BTreeMap::new();
            for (i, k) in keys.into_iter().enumerate() {
                let w = rd(b, 4 + 4 * n + 4 * i)?;
                let (v, l) = dec_entry(b, w, off)?;
                off += l;
                out.insert(k, v);
            }
            Ok((RVal::Obj(out), off))
        }
        _ => Err(format!("illegal nested container header {:#x}", h)),
    }
}

/// Strict validator/decoder of a complete document: every header and entry type legal, every
/// nested length exact, keys string/sorted/unique, strings UTF-8, numbers shortest, no trailing
/// bytes.
pub fn strict_dec(b: &[u8]) -> Result<RVal, String> {
    let h = rd(b, 0)?;
    match h & 0xE000_0000 {
        H_SCALAR => {
            if h != H_SCALAR {
                return Err(format!("scalar header with count bits {:#x}", h));
            }
            let w = rd(b, 4)?;
            if w & 0x7000_0000 == E_CONTAINER {
                return Err("scalar header wrapping a container entry".into());
            }
            let (v, l) = dec_entry(b, w, 8)?;
            if 8 + l != b.len() {
                return Err(format!("{} trailing bytes", b.len() - 8 - l));
            }
            Ok(v)
        }
        H_ARRAY | H_OBJECT => {
            let (v, used) = dec_container(b)?;
            if used != b.len() {
                return Err(format!("{} trailing bytes", b.len() - used));
            }
            Ok(v)
        }
        _ => Err(format!("illegal header {:#x}", h)),
    }
}

pub fn hex(b: &[u8]) -> String {
    let mut s = String::with_capacity(b.len() * 2);
    for x in b {
        s.push_str(&format!("{:02x}", x));
    }
    s
}

pub fn unhex(s: &str) -> Vec<u8> {
    (0..s.len() / 2)
        .map(|i| u8::from_str_radix(&s[2 * i..2 * i + 2], 16).unwrap())
        .collect()
}

#[cfg(test)]
mod tests {
    use super::*;
    #[test]
    fn readme_example() {
        // [false, 10, {"k":"v"}]
        let v = RVal::arr(vec![
            RVal::Bool(false),
            RVal::u(10),
            RVal::obj(vec![("k", RVal::s("v"))]),
        ]);
        let b = enc(&v);
        assert_eq!(
            hex(&b),
            "80000003300000002000000250 00000e500a4000000110000001100000016b76".replace(' ', "")
        );
        assert_eq!(strict_dec(&b).unwrap(), v);
    }
}
