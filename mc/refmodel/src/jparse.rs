//! Independent recursive-descent parsers for the documented JSONPath and key-path syntaxes.
//!
//! Three-valued: `Accept(ast)` when the *core* (documented) grammar parses the whole input,
//! `Reject` when even a deliberately *liberal* superset grammar cannot, `Unspecified` in
//! between (the documents do not say).  The checks only judge Accept and Reject.

use crate::jpath::*;
use crate::ops::KP;
use crate::val::RNum;

#[derive(Debug, Clone, PartialEq)]
pub enum Verdict<T> {
    Accept(T),
    Reject(String),
    Unspecified(String),
}

type R<T> = Result<T, String>;

struct P<'a> {
    b: &'a [u8],
    i: usize,
    liberal: bool,
    depth: usize,
}

const BREAK: &[u8] = b" ,.:{}[]()?@$|<>!=+-*/%\"'";

impl<'a> P<'a> {
    fn peek(&self) -> Option<u8> {
        self.b.get(self.i).copied()
    }
    fn at(&self, s: &[u8]) -> bool {
        self.b[self.i..].starts_with(s)
    }
    fn at_nocase(&self, s: &[u8]) -> bool {
        self.b.len() >= self.i + s.len() && self.b[self.i..self.i + s.len()].eq_ignore_ascii_case(s)
    }
    fn ws(&mut self) {
        while matches!(self.peek(), Some(b' ') | Some(b'\t') | Some(b'\r') | Some(b'\n')) {
            self.i += 1;
        }
    }
    fn eat(&mut self, s: &[u8]) -> bool {
        if self.at(s) {
            self.i += s.len();
            true
        } else {
            false
        }
    }
    fn expect(&mut self, s: &[u8]) -> R<()> {
        if self.eat(s) {
            Ok(())
        } else {
            Err(format!("expected {:?} at {}", String::from_utf8_lossy(s), self.i))
        }
    }
    /// quoted string with JSON-style escapes (incl. the braced unicode form); returns decoded
    fn string(&mut self) -> R<String> {
        if self.peek() != Some(b'"') {
            return Err("string expected".into());
        }
        // find the closing quote honouring backslash escapes
        let start = self.i;
        let mut j = self.i + 1;
        loop {
            match self.b.get(j) {
                None => return Err("unterminated string".into()),
                Some(b'\\') => j += 2,
                Some(b'"') => break,
                Some(_) => j += 1,
            }
        }
        if j >= self.b.len() {
            return Err("unterminated string".into());
        }
        let tok = &self.b[start..=j];
        let parsed = crate::text::parse_json(tok, crate::text::RELAXED)?;
        self.i = j + 1;
        match parsed.val {
            crate::val::RVal::Str(s) => Ok(s),
            _ => Err("not a string".into()),
        }
    }
    fn rawname(&mut self) -> R<String> {
        let st = self.i;
        while let Some(c) = self.peek() {
            if self.liberal {
                if c == b'\\' {
                    self.i = (self.i + 2).min(self.b.len());
                    continue;
                }
                if BREAK.contains(&c) || matches!(c, b'\t' | b'\n' | b'\r') {
                    break;
                }
            } else if !(c.is_ascii_alphanumeric() || c == b'_' || c >= 0x80) {
                break;
            }
            self.i += 1;
        }
        if self.i == st {
            return Err(format!("name expected at {}", st));
        }
        if !self.liberal && self.b[st].is_ascii_digit() {
            return Err("core names do not start with a digit".into());
        }
        let s = std::str::from_utf8(&self.b[st..self.i]).map_err(|_| "name not utf-8".to_string())?;
        Ok(s.to_string())
    }
    fn name(&mut self) -> R<String> {
        if self.liberal {
            self.ws();
        }
        if self.peek() == Some(b'"') {
            self.string()
        } else {
            self.rawname()
        }
    }
    fn digits(&mut self) -> R<&'a [u8]> {
        let st = self.i;
        while matches!(self.peek(), Some(b'0'..=b'9')) {
            self.i += 1;
        }
        if self.i == st {
            return Err(format!("digits expected at {}", st));
        }
        Ok(&self.b[st..self.i])
    }
    fn int32(&mut self, allow_plus: bool) -> R<i32> {
        let st = self.i;
        if self.peek() == Some(b'-') || (allow_plus && self.peek() == Some(b'+')) {
            self.i += 1;
        }
        self.digits()?;
        let s = std::str::from_utf8(&self.b[st..self.i]).unwrap();
        match s.trim_start_matches('+').parse::<i32>() {
            Ok(v) => Ok(v),
            Err(_) => {
                if self.liberal {
                    Ok(0)
                } else {
                    Err("index overflows i32".into())
                }
            }
        }
    }
    fn idx(&mut self) -> R<Idx> {
        if self.at_nocase(b"last") {
            self.i += 4;
            let save = self.i;
            self.ws();
            if self.peek() == Some(b'-') || self.peek() == Some(b'+') {
                let neg = self.peek() == Some(b'-');
                self.i += 1;
                self.ws();
                let lib = self.liberal;
                let v = self.int32(lib)?;
                // `last - N` / `last + N` mean what the arithmetic says, also for a signed N
                // (`last - -2` is `last+2`); an offset that does not fit an i32 is pinned at the end
                // of the i32 range (any array is shorter than that, so the selection is the same)
                let off = if neg { -(v as i64) } else { v as i64 };
                return Ok(Idx::Last(off.clamp(i32::MIN as i64, i32::MAX as i64) as i32));
            }
            self.i = save;
            return Ok(Idx::Last(0));
        }
        let lib = self.liberal;
        Ok(Idx::N(self.int32(lib)?))
    }
    fn aidx(&mut self) -> R<AIdx> {
        let s = self.idx()?;
        let save = self.i;
        self.ws();
        if self.at_nocase(b"to") {
            self.i += 2;
            self.ws();
            let e = self.idx()?;
            return Ok(AIdx::Slice(s, e));
        }
        self.i = save;
        Ok(AIdx::One(s))
    }
    /// one step other than a filter; None if no step starts here
    fn inner(&mut self) -> R<Option<Step>> {
        match self.peek() {
            Some(b'.') => {
                if self.at(b".*") {
                    self.i += 2;
                    return Ok(Some(Step::DotWild));
                }
                self.i += 1;
                if self.liberal {
                    self.ws();
                    if self.eat(b"*") {
                        return Ok(Some(Step::DotWild));
                    }
                }
                Ok(Some(Step::Dot(self.name()?)))
            }
            Some(b':') => {
                self.i += 1;
                Ok(Some(Step::Colon(self.name()?)))
            }
            Some(b'[') => {
                self.i += 1;
                self.ws();
                if self.eat(b"*") {
                    self.ws();
                    self.expect(b"]")?;
                    return Ok(Some(Step::BracketWild));
                }
                if self.peek() == Some(b'"') {
                    let s = self.string()?;
                    self.ws();
                    self.expect(b"]")?;
                    return Ok(Some(Step::ObjField(s)));
                }
                let mut v = vec![];
                loop {
                    self.ws();
                    v.push(self.aidx()?);
                    self.ws();
                    if self.eat(b",") {
                        continue;
                    }
                    self.expect(b"]")?;
                    break;
                }
                Ok(Some(Step::Indices(v)))
            }
            _ => Ok(None),
        }
    }
    fn filter(&mut self, in_predicate: bool) -> R<Option<Step>> {
        if self.peek() != Some(b'?') {
            return Ok(None);
        }
        self.i += 1;
        self.ws();
        self.expect(b"(")?;
        self.ws();
        let _ = in_predicate;
        let e = self.expr(false)?;
        self.ws();
        self.expect(b")")?;
        Ok(Some(Step::Filter(Box::new(e))))
    }
    /// zero or more steps (with filters if `filters`)
    fn steps(&mut self, filters: bool, out: &mut Vec<Step>) -> R<()> {
        loop {
            let save = self.i;
            self.ws();
            if let Some(s) = self.inner()? {
                out.push(s);
                continue;
            }
            if filters {
                if let Some(s) = self.filter(false)? {
                    out.push(s);
                    continue;
                }
            }
            self.i = save;
            return Ok(());
        }
    }
    fn number(&mut self) -> R<Lit> {
        let st = self.i;
        if self.liberal {
            for w in [&b"nan"[..], b"infinity", b"inf"] {
                let mut j = self.i;
                if matches!(self.b.get(j), Some(b'+') | Some(b'-')) {
                    j += 1;
                }
                if self.b.len() >= j + w.len() && self.b[j..j + w.len()].eq_ignore_ascii_case(w) {
                    self.i = j + w.len();
                    return Ok(Lit::Num(RNum::f(f64::NAN)));
                }
            }
        }
        if self.peek() == Some(b'-') || (self.liberal && self.peek() == Some(b'+')) {
            self.i += 1;
        }
        let mut lead_digits = true;
        if self.liberal && self.peek() == Some(b'.') {
            // .5
            lead_digits = false;
        } else {
            self.digits()?;
        }
        let mut integral = true;
        if self.peek() == Some(b'.') {
            let save = self.i;
            self.i += 1;
            if self.digits().is_err() {
                if self.liberal && lead_digits {
                    // "1." is a float for liberal readers
                } else {
                    self.i = save;
                    return Err("fraction digits expected".into());
                }
            }
            integral = false;
        }
        if matches!(self.peek(), Some(b'e') | Some(b'E')) {
            let save = self.i;
            self.i += 1;
            if matches!(self.peek(), Some(b'+') | Some(b'-')) {
                self.i += 1;
            }
            if self.digits().is_err() {
                self.i = save;
            } else {
                integral = false;
            }
        }
        let s = std::str::from_utf8(&self.b[st..self.i]).unwrap();
        if integral {
            if s == "-0" && !self.liberal {
                return Err("-0: classification not documented".into());
            }
            if let Ok(u) = s.trim_start_matches('+').parse::<u64>() {
                return Ok(Lit::Num(RNum::U(u)));
            }
            if let Ok(i) = s.parse::<i64>() {
                return Ok(Lit::Num(RNum::I(i)));
            }
            if !self.liberal {
                return Err("integer literal overflows".into());
            }
            return Ok(Lit::Num(RNum::f(0.0)));
        }
        match s.trim_start_matches('+').parse::<f64>() {
            Ok(f) if f.is_finite() || self.liberal => Ok(Lit::Num(RNum::f(f))),
            _ => {
                if self.liberal {
                    Ok(Lit::Num(RNum::f(0.0)))
                } else {
                    Err("float literal out of range".into())
                }
            }
        }
    }
    fn kw(&mut self, w: &[u8]) -> bool {
        let hit = if self.liberal { self.at_nocase(w) } else { self.at(w) };
        if hit {
            // must not continue as a name
            let next = self.b.get(self.i + w.len());
            if next.map_or(true, |c| !(c.is_ascii_alphanumeric() || *c == b'_' || *c >= 0x80)) {
                self.i += w.len();
                return true;
            }
        }
        false
    }
    fn operand(&mut self, root_only: bool) -> R<Expr> {
        match self.peek() {
            Some(b'$') => {
                self.i += 1;
                let mut v = vec![Step::Root];
                self.steps(false, &mut v)?;
                Ok(Expr::Paths(v))
            }
            Some(b'@') if !root_only || self.liberal => {
                self.i += 1;
                let mut v = vec![Step::Current];
                self.steps(false, &mut v)?;
                Ok(Expr::Paths(v))
            }
            Some(b'"') => Ok(Expr::Lit(Lit::Str(self.string()?))),
            Some(b'-') | Some(b'+') | Some(b'0'..=b'9') => Ok(Expr::Lit(self.number()?)),
            Some(b'.') if self.liberal => Ok(Expr::Lit(self.number()?)),
            _ => {
                if self.kw(b"null") {
                    return Ok(Expr::Lit(Lit::Null));
                }
                if self.kw(b"true") {
                    return Ok(Expr::Lit(Lit::Bool(true)));
                }
                if self.kw(b"false") {
                    return Ok(Expr::Lit(Lit::Bool(false)));
                }
                if self.liberal {
                    if let Ok(l) = self.number() {
                        return Ok(Expr::Lit(l));
                    }
                    // bare name as operand
                    let n = self.rawname()?;
                    let mut v = vec![Step::Dot(n)];
                    self.steps(false, &mut v)?;
                    return Ok(Expr::Paths(v));
                }
                Err(format!("operand expected at {}", self.i))
            }
        }
    }
    fn cmpop(&mut self) -> Option<Cmp> {
        for (s, c) in [(&b"=="[..], Cmp::Eq), (b"!=", Cmp::Ne), (b"<>", Cmp::Ne), (b"<=", Cmp::Le), (b">=", Cmp::Ge), (b"<", Cmp::Lt), (b">", Cmp::Gt)] {
            if self.eat(s) {
                return Some(c);
            }
        }
        None
    }
    /// liberal only: operand possibly combined with arithmetic operators
    fn arith_operand(&mut self, root_only: bool) -> R<Expr> {
        self.ws();
        if matches!(self.peek(), Some(b'+') | Some(b'-')) && !matches!(self.b.get(self.i + 1), Some(b'0'..=b'9')) {
            let op = self.peek().unwrap() as char;
            self.i += 1;
            self.ws();
            let x = self.arith_operand(root_only)?;
            return Ok(Expr::ArithUnary(op, Box::new(x)));
        }
        let mut l = if self.peek() == Some(b'(') && self.liberal {
            // parenthesised arithmetic is only ever liberal
            self.i += 1;
            let x = self.arith_operand(root_only)?;
            self.ws();
            self.expect(b")")?;
            x
        } else {
            self.operand(root_only)?
        };
        loop {
            let save = self.i;
            self.ws();
            match self.peek() {
                Some(c @ (b'+' | b'-' | b'*' | b'/' | b'%')) => {
                    self.i += 1;
                    self.ws();
                    let r = self.operand(root_only)?;
                    l = Expr::ArithBinary(c as char, Box::new(l), Box::new(r));
                }
                _ => {
                    self.i = save;
                    return Ok(l);
                }
            }
        }
    }
    fn atom(&mut self, root_only: bool) -> R<Expr> {
        self.depth += 1;
        if self.depth > 200 {
            return Err("too deep".into());
        }
        let r = self.atom_inner(root_only);
        self.depth -= 1;
        r
    }
    fn atom_inner(&mut self, root_only: bool) -> R<Expr> {
        self.ws();
        // exists(...)
        let save = self.i;
        if self.kw(b"exists") {
            self.ws();
            if self.eat(b"(") {
                self.ws();
                let pre = match self.peek() {
                    Some(b'$') => Step::Root,
                    Some(b'@') => Step::Current,
                    _ => return Err("exists needs $ or @".into()),
                };
                self.i += 1;
                let mut v = vec![pre];
                self.steps(true, &mut v)?;
                self.ws();
                self.expect(b")")?;
                return Ok(Expr::Exists(v));
            }
            self.i = save;
        }
        if self.peek() == Some(b'(') {
            // parenthesised boolean expression
            let save = self.i;
            self.i += 1;
            self.ws();
            if let Ok(e) = self.expr(root_only) {
                self.ws();
                if self.eat(b")") {
                    if self.liberal {
                        // may continue as a comparison of parenthesised arithmetic: give up precision
                    }
                    return Ok(e);
                }
            }
            self.i = save;
            if !self.liberal {
                return Err("bad parenthesised expression".into());
            }
        }
        if self.liberal {
            let l = self.arith_operand(root_only)?;
            self.ws();
            if let Some(c) = self.cmpop() {
                let r = self.arith_operand(root_only)?;
                return Ok(Expr::Cmp(c, Box::new(l), Box::new(r)));
            }
            return Ok(l);
        }
        // core: unary arithmetic, binary arithmetic or comparison between two plain operands
        if matches!(self.peek(), Some(b'+') | Some(b'-')) && !matches!(self.b.get(self.i + 1), Some(b'0'..=b'9')) {
            let op = self.peek().unwrap() as char;
            self.i += 1;
            self.ws();
            let x = self.operand(root_only)?;
            return Ok(Expr::ArithUnary(op, Box::new(x)));
        }
        let l = self.operand(root_only)?;
        self.ws();
        if let Some(c) = self.cmpop() {
            self.ws();
            let r = self.operand(root_only)?;
            return Ok(Expr::Cmp(c, Box::new(l), Box::new(r)));
        }
        if let Some(c @ (b'+' | b'-' | b'*' | b'/' | b'%')) = self.peek() {
            self.i += 1;
            self.ws();
            let r = self.operand(root_only)?;
            return Ok(Expr::ArithBinary(c as char, Box::new(l), Box::new(r)));
        }
        Err(format!("operator expected at {}", self.i))
    }
    fn and(&mut self, root_only: bool) -> R<Expr> {
        let mut l = self.atom(root_only)?;
        loop {
            let save = self.i;
            self.ws();
            if self.eat(b"&&") {
                self.ws();
                let r = self.atom(root_only)?;
                l = Expr::And(Box::new(l), Box::new(r));
            } else {
                self.i = save;
                return Ok(l);
            }
        }
    }
    fn expr(&mut self, root_only: bool) -> R<Expr> {
        let mut l = self.and(root_only)?;
        loop {
            let save = self.i;
            self.ws();
            if self.eat(b"||") {
                self.ws();
                let r = self.and(root_only)?;
                l = Expr::Or(Box::new(l), Box::new(r));
            } else {
                self.i = save;
                return Ok(l);
            }
        }
    }
    fn top(&mut self) -> R<JPath> {
        // predicate form first
        self.ws();
        let save = self.i;
        if let Ok(e) = self.expr(true) {
            self.ws();
            if self.i == self.b.len() && (self.liberal || !matches!(e, Expr::Paths(_) | Expr::Lit(_))) {
                return Ok(JPath(vec![Step::Predicate(Box::new(e))]));
            }
        }
        self.i = save;
        self.depth = 0;
        let mut v = vec![];
        if self.eat(b"$") {
            v.push(Step::Root);
        } else if !matches!(self.peek(), Some(b'.') | Some(b':') | Some(b'[') | Some(b'?') | None) {
            // bare leading name (Snowflake style)
            let n = self.rawname()?;
            v.push(Step::Dot(n));
        }
        self.steps(true, &mut v)?;
        self.ws();
        if self.i != self.b.len() {
            return Err(format!("trailing input at {}", self.i));
        }
        if v.is_empty() && !self.liberal {
            return Err("empty path".into());
        }
        Ok(JPath(v))
    }
}

pub fn parse_path(input: &[u8]) -> Verdict<JPath> {
    let mut core = P { b: input, i: 0, liberal: false, depth: 0 };
    match core.top() {
        Ok(p) => Verdict::Accept(p),
        Err(core_err) => {
            let mut lib = P { b: input, i: 0, liberal: true, depth: 0 };
            match lib.top() {
                Ok(_) => Verdict::Unspecified(core_err),
                Err(e) => Verdict::Reject(e),
            }
        }
    }
}

// ---------------------------------------------------------------------------------------------
// key paths

fn keypath_with(input: &[u8], liberal: bool) -> R<Vec<KP>> {
    let mut p = P { b: input, i: 0, liberal, depth: 0 };
    p.ws();
    p.expect(b"{")?;
    p.ws();
    let mut out = vec![];
    if p.eat(b"}") {
        p.ws();
        return if p.i == input.len() { Ok(out) } else { Err("trailing".into()) };
    }
    loop {
        p.ws();
        match p.peek() {
            Some(b'"') => out.push(KP::QuotedName(p.string()?)),
            Some(b'-') | Some(b'+') | Some(b'0'..=b'9') => {
                let st = p.i;
                match p.int32(true) {
                    Ok(v) => out.push(KP::Index(v)),
                    Err(e) => {
                        if liberal {
                            p.i = st;
                            let _ = p.rawname();
                            out.push(KP::Index(0));
                        } else {
                            return Err(e);
                        }
                    }
                }
                // a digit run continuing as a name is not an element of the core grammar
                if matches!(p.peek(), Some(c) if c.is_ascii_alphanumeric() || c == b'_' || c >= 0x80) {
                    if liberal {
                        let _ = p.rawname();
                    } else {
                        return Err("plain names do not start with a digit or sign".into());
                    }
                }
            }
            _ => out.push(KP::Name(p.rawname()?)),
        }
        p.ws();
        if p.eat(b",") {
            continue;
        }
        p.expect(b"}")?;
        break;
    }
    p.ws();
    if p.i != input.len() {
        return Err("trailing input".into());
    }
    Ok(out)
}

pub fn parse_keypaths(input: &[u8]) -> Verdict<Vec<KP>> {
    match keypath_with(input, false) {
        Ok(v) => Verdict::Accept(v),
        Err(core_err) => match keypath_with(input, true) {
            Ok(_) => Verdict::Unspecified(core_err),
            Err(e) => Verdict::Reject(e),
        },
    }
}

#[cfg(test)]
mod tests {
    use super::*;
    #[test]
    fn paths() {
        for s in ["$", "$.*", "$[*]", "$.store.book[0,1, last - 2].price", "$.store.book[0,1 to last-1]", "$.\"store\".\"book\"", "$[*].book.price ? (@ == 10)", "$.store.book?(@.price > 20 && (@.category == \"reference\" || @.category == \"fiction\"))", "[1][2]", "k1.k2:k3", "k1[\"k2\"][1]", "$ > 1", "$.price > 10 || $.category == \"reference\"", "$.store?(exists(@.book?(exists(@.category?(@ == \"fiction\")))))", "5 + 5", "+$.store.book[0].price", "$.a == 1.5", "$.a == \"\""] {
            assert!(matches!(parse_path(s.as_bytes()), Verdict::Accept(_)), "{} -> {:?}", s, parse_path(s.as_bytes()));
        }
        for s in ["$.[", "$X", "$.", "$.prop.", "$.prop+.", "$..", "$.prop..", "$.foo bar", "$[0, 1, 2 4]", "$['1','2',]", "$['1', ,'3']", "$['aaa'}'bbb']", "$.a]", "$.a == \"abc"] {
            assert!(matches!(parse_path(s.as_bytes()), Verdict::Reject(_)), "{} -> {:?}", s, parse_path(s.as_bytes()));
        }
        assert_eq!(
            parse_path(b"$.a?(@.b == 1 || @.c < \"x\" && exists(@.d))"),
            Verdict::Accept(JPath(vec![
                Step::Root,
                Step::Dot("a".into()),
                Step::Filter(Box::new(Expr::Or(
                    Box::new(Expr::Cmp(Cmp::Eq, Box::new(Expr::Paths(vec![Step::Current, Step::Dot("b".into())])), Box::new(Expr::Lit(Lit::Num(RNum::U(1)))))),
                    Box::new(Expr::And(
                        Box::new(Expr::Cmp(Cmp::Lt, Box::new(Expr::Paths(vec![Step::Current, Step::Dot("c".into())])), Box::new(Expr::Lit(Lit::Str("x".into()))))),
                        Box::new(Expr::Exists(vec![Step::Current, Step::Dot("d".into())]))
                    ))
                )))
            ]))
        );
    }
    #[test]
    fn keypaths() {
        assert_eq!(parse_keypaths(b"{ a , 1,\"b c\" , -2 }"), Verdict::Accept(vec![KP::Name("a".into()), KP::Index(1), KP::QuotedName("b c".into()), KP::Index(-2)]));
        assert_eq!(parse_keypaths(b"{}"), Verdict::Accept(vec![]));
        assert!(matches!(parse_keypaths(b"{\"a}"), Verdict::Reject(_)));
        assert!(matches!(parse_keypaths(b"{a"), Verdict::Reject(_)));
        assert!(matches!(parse_keypaths(b"{1a}"), Verdict::Unspecified(_) | Verdict::Reject(_)));
    }
}
