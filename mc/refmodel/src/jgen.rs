//! Enumerators of JSONPath programs (DESIGN C08/C09/C15).  Deterministic, simplest first.
use crate::jpath::*;
use crate::val::RNum;

fn n(i: i32) -> AIdx {
    AIdx::One(Idx::N(i))
}

pub fn plain_steps() -> Vec<Step> {
    vec![
        Step::Dot("a".into()),
        Step::Dot("b".into()),
        Step::Colon("a".into()),
        Step::ObjField("a".into()),
        Step::DotWild,
        Step::BracketWild,
        Step::Indices(vec![n(0)]),
        Step::Indices(vec![n(1)]),
        Step::Indices(vec![AIdx::One(Idx::Last(0))]),
        Step::Indices(vec![AIdx::One(Idx::Last(-1))]),
        Step::Indices(vec![n(0), n(0)]),
        Step::Indices(vec![n(1), n(0)]),
        Step::Indices(vec![AIdx::Slice(Idx::N(0), Idx::Last(0))]),
        Step::Indices(vec![AIdx::Slice(Idx::N(1), Idx::N(0))]),
        Step::Indices(vec![n(-1)]),
        Step::Indices(vec![AIdx::One(Idx::Last(1))]),
        Step::Indices(vec![AIdx::Slice(Idx::Last(1), Idx::Last(2))]),
        Step::Indices(vec![AIdx::Slice(Idx::Last(0), Idx::Last(1))]),
        Step::Indices(vec![AIdx::Slice(Idx::Last(-1), Idx::Last(0))]),
        Step::Indices(vec![AIdx::Slice(Idx::N(-1), Idx::N(0))]),
        Step::Indices(vec![AIdx::Slice(Idx::N(0), Idx::Last(-1))]),
    ]
}

fn p(steps: Vec<Step>) -> Expr {
    Expr::Paths(steps)
}

pub fn lits() -> Vec<Expr> {
    vec![
        Expr::Lit(Lit::Null),
        Expr::Lit(Lit::Bool(true)),
        Expr::Lit(Lit::Bool(false)),
        Expr::Lit(Lit::Num(RNum::U(0))),
        Expr::Lit(Lit::Num(RNum::U(1))),
        Expr::Lit(Lit::Num(RNum::U(2))),
        Expr::Lit(Lit::Num(RNum::I(-1))),
        Expr::Lit(Lit::Str("a".into())),
        Expr::Lit(Lit::Str("b".into())),
    ]
}

/// operands usable inside a filter (may use @)
pub fn filter_operands() -> Vec<Expr> {
    let mut v = vec![
        p(vec![Step::Current]),
        p(vec![Step::Current, Step::Dot("a".into())]),
        p(vec![Step::Current, Step::Dot("b".into())]),
        p(vec![Step::Current, Step::BracketWild]),
        p(vec![Step::Current, Step::Dot("a".into()), Step::BracketWild]),
        p(vec![Step::Root]),
        p(vec![Step::Root, Step::Dot("a".into())]),
        p(vec![Step::Root, Step::Dot("b".into()), Step::BracketWild]),
        p(vec![Step::Current, Step::DotWild]),
    ];
    v.extend(lits());
    v
}

/// operands usable in a stand-alone predicate (no @)
pub fn predicate_operands() -> Vec<Expr> {
    let mut v = vec![
        p(vec![Step::Root]),
        p(vec![Step::Root, Step::Dot("a".into())]),
        p(vec![Step::Root, Step::Dot("b".into())]),
        p(vec![Step::Root, Step::BracketWild]),
        p(vec![Step::Root, Step::Dot("a".into()), Step::BracketWild]),
        p(vec![Step::Root, Step::Dot("b".into()), Step::Indices(vec![AIdx::One(Idx::Last(0))])]),
        p(vec![Step::Root, Step::DotWild]),
    ];
    v.extend(lits());
    v
}

pub const CMPS: [Cmp; 6] = [Cmp::Eq, Cmp::Ne, Cmp::Lt, Cmp::Le, Cmp::Gt, Cmp::Ge];

pub fn atoms(operands: &[Expr]) -> Vec<Expr> {
    let mut out = vec![];
    for l in operands {
        for r in operands {
            for c in CMPS {
                out.push(Expr::Cmp(c, Box::new(l.clone()), Box::new(r.clone())));
            }
        }
    }
    out
}

pub fn exists_forms(in_filter: bool) -> Vec<Expr> {
    let pre = if in_filter { Step::Current } else { Step::Root };
    let inner = Step::Filter(Box::new(Expr::Cmp(Cmp::Eq, Box::new(p(vec![Step::Current])), Box::new(Expr::Lit(Lit::Num(RNum::U(1)))))));
    let mut out = vec![];
    let tails: Vec<Vec<Step>> = vec![
        vec![],
        vec![Step::Dot("a".into())],
        vec![Step::Dot("b".into())],
        vec![Step::BracketWild],
        vec![Step::DotWild],
        vec![Step::Indices(vec![n(0)])],
        vec![Step::Dot("a".into()), Step::BracketWild],
        vec![Step::Dot("a".into()), Step::Dot("a".into())],
        vec![Step::BracketWild, inner.clone()],
        vec![Step::Dot("a".into()), inner.clone()],
        vec![inner.clone()],
        vec![Step::DotWild, inner],
    ];
    for t in tails {
        let mut s = vec![pre.clone()];
        s.extend(t);
        out.push(Expr::Exists(s));
    }
    if in_filter {
        out.push(Expr::Exists(vec![Step::Root, Step::Dot("a".into())]));
        out.push(Expr::Exists(vec![Step::Root, Step::Dot("zz".into())]));
    }
    out
}

/// a fixed reduced set of atoms used to build compound (&&, ||, parenthesised) expressions
pub fn reduced_atoms(operands: &[Expr], in_filter: bool) -> Vec<Expr> {
    let all = atoms(operands);
    let mut out: Vec<Expr> = all.iter().step_by((all.len() / 20).max(1)).cloned().collect();
    out.extend(exists_forms(in_filter).into_iter().take(4));
    out
}

pub fn compounds(red: &[Expr]) -> Vec<Expr> {
    let mut out = vec![];
    for a in red {
        for b in red {
            out.push(Expr::And(Box::new(a.clone()), Box::new(b.clone())));
            out.push(Expr::Or(Box::new(a.clone()), Box::new(b.clone())));
        }
    }
    // depth-2 mixes exercising precedence and parenthesisation
    for a in red.iter().take(5) {
        for b in red.iter().skip(3).take(5) {
            for c in red.iter().skip(6).take(5) {
                let (a, b, c) = (Box::new(a.clone()), Box::new(b.clone()), Box::new(c.clone()));
                out.push(Expr::Or(Box::new(Expr::And(a.clone(), b.clone())), c.clone()));
                out.push(Expr::And(a.clone(), Box::new(Expr::Or(b.clone(), c.clone()))));
                out.push(Expr::Or(a.clone(), Box::new(Expr::And(b.clone(), c.clone()))));
                out.push(Expr::And(Box::new(Expr::Or(a.clone(), b.clone())), c.clone()));
                // same operator nested on the right: the grouping must survive printing
                out.push(Expr::And(a.clone(), Box::new(Expr::And(b.clone(), c.clone()))));
                out.push(Expr::Or(a, Box::new(Expr::Or(b, c))));
            }
        }
    }
    out
}

pub fn filters_full() -> Vec<Expr> {
    let ops = filter_operands();
    let mut out = atoms(&ops);
    out.extend(exists_forms(true));
    out.extend(compounds(&reduced_atoms(&ops, true)));
    out
}

pub fn filters_reduced() -> Vec<Expr> {
    let ops = filter_operands();
    let all = atoms(&ops);
    let mut out: Vec<Expr> = all.iter().step_by(41).cloned().collect();
    out.extend(exists_forms(true).into_iter().step_by(3));
    out
}

pub fn predicates() -> Vec<Expr> {
    let ops = predicate_operands();
    let mut out = atoms(&ops);
    out.extend(exists_forms(false));
    out.extend(compounds(&reduced_atoms(&ops, false)));
    out
}

pub fn arithmetic_paths() -> Vec<JPath> {
    let a = p(vec![Step::Root, Step::Dot("a".into())]);
    let three = Expr::Lit(Lit::Num(RNum::U(3)));
    let cur = p(vec![Step::Current]);
    let mut out = vec![];
    for op in ['+', '-', '*', '/', '%'] {
        out.push(JPath(vec![Step::Predicate(Box::new(Expr::ArithBinary(op, Box::new(a.clone()), Box::new(three.clone()))))]));
        out.push(JPath(vec![Step::Root, Step::Filter(Box::new(Expr::ArithBinary(op, Box::new(cur.clone()), Box::new(three.clone()))))]));
        out.push(JPath(vec![Step::Root, Step::BracketWild, Step::Filter(Box::new(Expr::ArithBinary(op, Box::new(cur.clone()), Box::new(cur.clone()))))]));
    }
    // arithmetic below exists(), in a nested filter, behind a connective, in a second filter
    let one = Expr::Lit(Lit::Num(RNum::U(1)));
    let arith = |op: char| Expr::ArithBinary(op, Box::new(cur.clone()), Box::new(one.clone()));
    for op in ['+', '*'] {
        out.push(JPath(vec![Step::Root, Step::BracketWild, Step::Filter(Box::new(Expr::Exists(vec![Step::Current, Step::Dot("a".into()), Step::Filter(Box::new(arith(op)))])))]));
        out.push(JPath(vec![Step::Root, Step::DotWild, Step::Filter(Box::new(Expr::Exists(vec![Step::Current, Step::BracketWild, Step::Filter(Box::new(arith(op)))])))]));
        out.push(JPath(vec![Step::Root, Step::Filter(Box::new(Expr::Exists(vec![Step::Root, Step::Dot("a".into()), Step::Filter(Box::new(arith(op)))])))]));
        out.push(JPath(vec![Step::Predicate(Box::new(Expr::Exists(vec![Step::Root, Step::BracketWild, Step::Filter(Box::new(arith(op)))])))]));
        // (arithmetic as a comparison operand is not in the language the parser accepts)
        out.push(JPath(vec![Step::Root, Step::BracketWild, Step::Filter(Box::new(Expr::Or(
            Box::new(Expr::Cmp(Cmp::Eq, Box::new(cur.clone()), Box::new(one.clone()))),
            Box::new(Expr::Exists(vec![Step::Current, Step::Dot("a".into()), Step::Filter(Box::new(arith(op)))])),
        )))]));
        out.push(JPath(vec![Step::Root, Step::BracketWild, Step::Filter(Box::new(Expr::Cmp(Cmp::Eq, Box::new(cur.clone()), Box::new(one.clone())))), Step::Filter(Box::new(arith(op)))]));
        out.push(JPath(vec![Step::Root, Step::Dot("a".into()), Step::Filter(Box::new(arith(op))), Step::BracketWild]));
    }
    for op in ['+', '-'] {
        out.push(JPath(vec![Step::Predicate(Box::new(Expr::ArithUnary(op, Box::new(a.clone()))))]));
        out.push(JPath(vec![Step::Root, Step::Dot("a".into()), Step::Filter(Box::new(Expr::ArithUnary(op, Box::new(cur.clone()))))]));
    }
    out
}

/// all step sequences of length <= maxlen over the plain alphabet, with the root written
pub fn plain_paths(maxlen: usize) -> Vec<JPath> {
    let al = plain_steps();
    let mut out = vec![JPath(vec![Step::Root])];
    let mut level: Vec<Vec<Step>> = vec![vec![]];
    for _ in 0..maxlen {
        let mut next = vec![];
        for pre in &level {
            for s in &al {
                let mut q = pre.clone();
                q.push(s.clone());
                let mut full = vec![Step::Root];
                full.extend(q.clone());
                out.push(JPath(full));
                next.push(q);
            }
        }
        level = next;
    }
    out
}

/// paths of `len` steps with exactly one filter step at any position
pub fn filter_paths(len: usize, filters: &[Expr]) -> Vec<JPath> {
    let al = plain_steps();
    let mut out = vec![];
    let mut pres: Vec<Vec<Step>> = vec![vec![]];
    for _ in 1..len {
        let mut next = vec![];
        for pre in &pres {
            for s in &al {
                let mut q = pre.clone();
                q.push(s.clone());
                next.push(q);
            }
        }
        pres = next;
    }
    for plain in &pres {
        for pos in 0..len {
            for f in filters {
                let mut steps = vec![Step::Root];
                let mut k = 0;
                for i in 0..len {
                    if i == pos {
                        steps.push(Step::Filter(Box::new(f.clone())));
                    } else {
                        steps.push(plain[k].clone());
                        k += 1;
                    }
                }
                out.push(JPath(steps));
            }
        }
    }
    out
}

pub fn predicate_paths() -> Vec<JPath> {
    predicates().into_iter().map(|e| JPath(vec![Step::Predicate(Box::new(e))])).collect()
}

// ---------------------------------------------------------------------------------------------
// ASTs for the syntax check (C09): every literal kind, every index form

pub fn syntax_literals() -> Vec<Expr> {
    let mut v = lits();
    for f in [1.5, -0.5, 1e3, 0.25, 2.0, -7.0, 1e19, -1e300] {
        v.push(Expr::Lit(Lit::Num(RNum::f(f))));
    }
    v.push(Expr::Lit(Lit::Str("".into())));
    v.push(Expr::Lit(Lit::Str("a b".into())));
    v.push(Expr::Lit(Lit::Num(RNum::U(u64::MAX))));
    v.push(Expr::Lit(Lit::Num(RNum::I(i64::MIN))));
    v
}

pub fn syntax_index_steps() -> Vec<Step> {
    let idxs = vec![Idx::N(0), Idx::N(7), Idx::N(3), Idx::N(2147483647), Idx::Last(0), Idx::Last(-1), Idx::Last(2), Idx::Last(-2147483647), Idx::Last(2147483647)];
    let mut out = vec![];
    for a in &idxs {
        out.push(Step::Indices(vec![AIdx::One(a.clone())]));
        for b in &idxs {
            out.push(Step::Indices(vec![AIdx::Slice(a.clone(), b.clone())]));
            out.push(Step::Indices(vec![AIdx::One(a.clone()), AIdx::One(b.clone())]));
        }
    }
    out.push(Step::Indices(vec![AIdx::One(Idx::N(0)), AIdx::Slice(Idx::N(1), Idx::Last(-1)), AIdx::One(Idx::Last(0))]));
    out
}

pub fn syntax_exprs(in_filter: bool) -> Vec<Expr> {
    let cur = if in_filter { Step::Current } else { Step::Root };
    let pa = Expr::Paths(vec![cur.clone(), Step::Dot("a".into())]);
    let pb = Expr::Paths(vec![cur.clone(), Step::Dot("b".into()), Step::BracketWild]);
    let pr = Expr::Paths(vec![Step::Root, Step::ObjField("k".into()), Step::Indices(vec![AIdx::One(Idx::Last(-1))])]);
    let mut atoms_v: Vec<Expr> = vec![];
    for l in syntax_literals() {
        for c in CMPS {
            atoms_v.push(Expr::Cmp(c, Box::new(pa.clone()), Box::new(l.clone())));
            atoms_v.push(Expr::Cmp(c, Box::new(l.clone()), Box::new(pb.clone())));
        }
    }
    atoms_v.push(Expr::Cmp(Cmp::Lt, Box::new(pa.clone()), Box::new(pr.clone())));
    atoms_v.push(Expr::Cmp(Cmp::Eq, Box::new(Expr::Paths(vec![cur.clone()])), Box::new(Expr::Paths(vec![cur.clone()]))));
    atoms_v.extend(exists_forms(in_filter));
    let red: Vec<Expr> = atoms_v.iter().step_by(23).cloned().chain(exists_forms(in_filter).into_iter().take(2)).collect();
    let mut out = atoms_v.clone();
    out.extend(compounds(&red));
    // four-operand chains: a && b && c && d must stay left-nested
    if red.len() >= 4 {
        for s in 0..red.len().min(6) {
            let g = |k: usize| Box::new(red[(s + k) % red.len()].clone());
            out.push(Expr::And(Box::new(Expr::And(Box::new(Expr::And(g(0), g(1))), g(2))), g(3)));
            out.push(Expr::Or(Box::new(Expr::Or(Box::new(Expr::Or(g(0), g(1))), g(2))), g(3)));
            out.push(Expr::Or(Box::new(Expr::Or(Box::new(Expr::Or(Box::new(Expr::Or(g(0), g(1))), g(2))), g(3))), g(4)));
        }
    }
    // three-way chains (left associativity)
    for a in red.iter().take(3) {
        for b in red.iter().skip(1).take(3) {
            for c in red.iter().skip(2).take(3) {
                out.push(Expr::And(Box::new(Expr::And(Box::new(a.clone()), Box::new(b.clone()))), Box::new(c.clone())));
                out.push(Expr::Or(Box::new(Expr::Or(Box::new(a.clone()), Box::new(b.clone()))), Box::new(c.clone())));
            }
        }
    }
    out
}

pub fn syntax_paths() -> Vec<JPath> {
    let mut out = plain_paths(3);
    // root omitted (Snowflake style): first step must not be a bare `.name`-less form
    for p in plain_paths(2) {
        if p.0.len() > 1 {
            out.push(JPath(p.0[1..].to_vec()));
        }
    }
    for s in syntax_index_steps() {
        out.push(JPath(vec![Step::Root, s.clone()]));
        out.push(JPath(vec![Step::Root, Step::Dot("a".into()), s.clone(), Step::DotWild]));
    }
    for n in ["a", "A1", "a_b", "é", "last", "to", "null", "exists", "true1"] {
        out.push(JPath(vec![Step::Root, Step::Dot(n.into())]));
        out.push(JPath(vec![Step::Root, Step::Colon(n.into()), Step::ObjField(n.into())]));
        out.push(JPath(vec![Step::Dot(n.into()), Step::Dot("x".into())]));
    }
    for e in syntax_exprs(true) {
        out.push(JPath(vec![Step::Root, Step::Filter(Box::new(e.clone()))]));
        out.push(JPath(vec![Step::Root, Step::Dot("a".into()), Step::BracketWild, Step::Filter(Box::new(e)), Step::Dot("b".into())]));
    }
    for e in syntax_exprs(false) {
        out.push(JPath(vec![Step::Predicate(Box::new(e))]));
    }
    out.extend(arithmetic_paths());
    out
}
