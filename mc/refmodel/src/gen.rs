//! Deterministic, index-addressable generators of the document universes (DESIGN §2.4).
//! No randomness anywhere.

use crate::val::{RNum, RVal};

pub fn s3() -> Vec<RVal> {
    vec![RVal::Null, RVal::u(1), RVal::s("a")]
}

pub fn s7() -> Vec<RVal> {
    vec![
        RVal::Null,
        RVal::Bool(false),
        RVal::Bool(true),
        RVal::u(0),
        RVal::u(1),
        RVal::s(""),
        RVal::s("a"),
    ]
}

/// 17 payload-width classes
pub fn sw() -> Vec<RVal> {
    vec![
        RVal::Null,
        RVal::Bool(true),
        RVal::Bool(false),
        RVal::s(""),
        RVal::s("a"),
        RVal::s("é"),
        RVal::s("ab"),
        RVal::u(0),
        RVal::u(1),
        RVal::i(-1),
        RVal::u(255),
        RVal::u(256),
        RVal::i(-129),
        RVal::u(65536),
        RVal::u(1 << 32),
        RVal::i(i64::MIN),
        RVal::f(1.5),
    ]
}

pub fn atoms() -> Vec<RVal> {
    vec![
        RVal::arr(vec![]),
        RVal::obj(vec![]),
        RVal::arr(vec![RVal::Null]),
        RVal::obj(vec![("a", RVal::Null)]),
        RVal::arr(vec![RVal::arr(vec![RVal::u(1)])]),
        RVal::obj(vec![("é", RVal::arr(vec![RVal::u(1), RVal::s("a")]))]),
    ]
}

pub fn k5() -> Vec<String> {
    ["", "a", "A", "ab", "é"].iter().map(|s| s.to_string()).collect()
}

pub fn sstr() -> Vec<String> {
    [
        "", "a", "A", "b", "ab", "aB", "a\0", "a\x01", "a\x01\x03", "a\x01\x04", "\0", "\x01", "é",
        "É", "€", "💎", "\"", "\\", "\n", "\x7f", "\u{2028}", "/", "true", "TRUE", "1", "-1", "1.5",
        "\x08\x0c\r\t", "\x1f", "a\"b\\c",
        // strings that spell JSON documents, DEL next to a character that needs an escape, a lone backslash path
        "[]", "{\"a\":1}", "null", "\x7f\n", "C:\\temp",
        // brackets and braces around white space inside a string (a renderer post-pass must not touch them)
        "- [ ] x", "{\n }",
        // content that reads like an escape sequence (a literal backslash followed by u and hex digits, by n, by a quote)
        "\\u0041", "\\ud83d\\ude00", "\\n", "\\\"",
    ]
    .iter()
    .map(|s| s.to_string())
    .collect()
}

/// Boundary number set B64 (built programmatically, deduplicated, deterministic order).
pub fn b64(include_nonfinite: bool) -> Vec<RNum> {
    let mut out: Vec<RNum> = Vec::new();
    let mut push = |n: RNum| {
        if !out.contains(&n) {
            out.push(n);
        }
    };
    let mut ints: Vec<i128> = vec![0, 1, -1, 2, -2, 10, -10, 100];
    for k in 0..=64u32 {
        let p: i128 = 1i128 << k;
        for d in [-2i128, -1, 0, 1, 2] {
            ints.push(p + d);
            ints.push(-(p + d));
        }
    }
    for b in [
        127i128, 128, 255, 256, 32767, 32768, 65535, 65536, 2147483647, 2147483648, 4294967295,
        4294967296,
    ] {
        for d in [-1i128, 0, 1] {
            ints.push(b + d);
            ints.push(-(b + d));
        }
    }
    ints.push(i64::MAX as i128);
    ints.push(i64::MIN as i128);
    ints.push(u64::MAX as i128);
    ints.sort();
    ints.dedup();
    let mut floats: Vec<f64> = vec![
        0.0,
        -0.0,
        1.0,
        -1.0,
        0.5,
        -0.5,
        1.5,
        -1.5,
        0.1,
        1e-7,
        1e21,
        1e22,
        1e23,
        123456.789,
        f64::MAX,
        f64::MIN,
        f64::MIN_POSITIVE,
        5e-324,
        -5e-324,
        1e300,
        -1e300,
        9007199254740991.0,
        9007199254740992.0,
        9007199254740993.0,
        9007199254740994.0,
        9223372036854775808.0,
        -9223372036854775808.0,
        18446744073709551616.0,
        36893488147419103232.0,
    ];
    for &n in &ints {
        if (i64::MIN as i128..=u64::MAX as i128).contains(&n) {
            if n >= 0 {
                push(RNum::U(n as u64));
                if n > 0 && n <= i64::MAX as i128 {
                    push(RNum::I(n as i64));
                }
            } else {
                push(RNum::I(n as i64));
            }
        }
        let f = n as f64;
        floats.push(f);
        floats.push(crate::val::next_up(f));
        floats.push(crate::val::next_down(f));
    }
    for f in floats {
        if f.is_finite() {
            push(RNum::f(f));
        }
    }
    if include_nonfinite {
        push(RNum::f(f64::INFINITY));
        push(RNum::f(f64::NEG_INFINITY));
        push(RNum::f(f64::NAN));
    }
    out
}

/// Universe U(d, w, S, K): all values of depth <= d, arrays of <= w elements, objects of <= w
/// members with keys from K (sorted key subsets), scalars from S.  Index-addressable.
#[derive(Clone)]
pub struct Uni {
    pub scalars: Vec<RVal>,
    pub keys: Vec<String>,
    pub w: usize,
    /// subsets of keys (as sorted index lists) of size <= w, in a fixed order
    subsets: Vec<Vec<usize>>,
    /// counts[d] = number of values of depth <= d
    counts: Vec<u64>,
}

impl Uni {
    pub fn new(scalars: Vec<RVal>, keys: Vec<&str>, w: usize, max_depth: usize) -> Uni {
        let mut keys: Vec<String> = keys.iter().map(|s| s.to_string()).collect();
        keys.sort();
        keys.dedup();
        let mut subsets: Vec<Vec<usize>> = Vec::new();
        let nk = keys.len();
        for mask in 0u32..(1u32 << nk) {
            if (mask.count_ones() as usize) <= w {
                subsets.push((0..nk).filter(|i| mask & (1 << i) != 0).collect());
            }
        }
        subsets.sort_by_key(|s| (s.len(), s.clone()));
        let mut u = Uni {
            scalars,
            keys,
            w,
            subsets,
            counts: vec![],
        };
        let mut counts = vec![u.scalars.len() as u64];
        for _ in 1..=max_depth {
            let n = *counts.last().unwrap();
            let mut c = u.scalars.len() as u64;
            for len in 0..=w {
                c += n.pow(len as u32);
            }
            for s in &u.subsets {
                c += n.pow(s.len() as u32);
            }
            counts.push(c);
        }
        u.counts = counts;
        u
    }
    pub fn count(&self, d: usize) -> u64 {
        self.counts[d]
    }
    pub fn nth(&self, d: usize, mut i: u64) -> RVal {
        let ns = self.scalars.len() as u64;
        if i < ns {
            return self.scalars[i as usize].clone();
        }
        assert!(d > 0, "index out of range");
        i -= ns;
        let n = self.counts[d - 1];
        for len in 0..=self.w {
            let c = n.pow(len as u32);
            if i < c {
                let mut out = Vec::with_capacity(len);
                let mut j = i;
                let mut digits = vec![0u64; len];
                for p in (0..len).rev() {
                    digits[p] = j % n;
                    j /= n;
                }
                for p in 0..len {
                    out.push(self.nth(d - 1, digits[p]));
                }
                return RVal::Arr(out);
            }
            i -= c;
        }
        for s in &self.subsets {
            let c = n.pow(s.len() as u32);
            if i < c {
                let mut j = i;
                let mut digits = vec![0u64; s.len()];
                for p in (0..s.len()).rev() {
                    digits[p] = j % n;
                    j /= n;
                }
                let mut m = std::collections::BTreeMap::new();
                for (p, ki) in s.iter().enumerate() {
                    m.insert(self.keys[*ki].clone(), self.nth(d - 1, digits[p]));
                }
                return RVal::Obj(m);
            }
            i -= c;
        }
        panic!("index out of range");
    }
    pub fn all(&self, d: usize) -> Vec<RVal> {
        (0..self.count(d)).map(|i| self.nth(d, i)).collect()
    }
}

pub fn d2() -> Vec<RVal> {
    Uni::new(s3(), vec!["a", "b"], 2, 2).all(2)
}

pub fn d2k_uni() -> Uni {
    Uni::new(s7(), vec!["a", "A", "é"], 2, 2)
}

pub fn d3_uni() -> Uni {
    Uni::new(vec![RVal::Null, RVal::u(1)], vec!["a", "b"], 2, 3)
}

pub fn d3x_uni() -> Uni {
    Uni::new(s3(), vec!["a", "b"], 2, 3)
}

pub fn p5() -> Vec<RVal> {
    Uni::new(
        vec![RVal::Null, RVal::u(1), RVal::s("a"), RVal::f(1.0)],
        vec!["a", "b"],
        2,
        2,
    )
    .all(2)
}

/// depth-1 sibling-width universe: arrays of <= w elements and objects of <= w members (keys K5)
/// over SW + container atoms, plus the bare scalars and atoms.
pub fn d1(w: usize) -> Vec<RVal> {
    let mut elems = sw();
    elems.extend(atoms());
    let keys = k5();
    let mut out: Vec<RVal> = elems.clone();
    // arrays
    let n = elems.len();
    for len in 1..=w {
        let total = n.pow(len as u32);
        for idx in 0..total {
            let mut j = idx;
            let mut v = Vec::with_capacity(len);
            for _ in 0..len {
                v.push(elems[j % n].clone());
                j /= n;
            }
            v.reverse();
            out.push(RVal::Arr(v));
        }
    }
    // objects: all key subsets of size 1..=w (sorted), all value tuples
    let nk = keys.len();
    for mask in 1u32..(1 << nk) {
        let ks: Vec<usize> = (0..nk).filter(|i| mask & (1 << i) != 0).collect();
        if ks.len() > w {
            continue;
        }
        let total = n.pow(ks.len() as u32);
        for idx in 0..total {
            let mut j = idx;
            let mut m = std::collections::BTreeMap::new();
            for k in ks.iter().rev() {
                m.insert(keys[*k].clone(), elems[j % n].clone());
                j /= n;
            }
            out.push(RVal::Obj(m));
        }
    }
    out
}

/// alternating / uniform nesting chain of given depth with a scalar at the bottom
pub fn chain(depth: usize, shape: u8, bottom: RVal) -> RVal {
    let mut v = bottom;
    for lvl in (0..depth).rev() {
        let as_arr = match shape {
            0 => true,
            1 => false,
            _ => lvl % 2 == 0,
        };
        v = if as_arr {
            RVal::Arr(vec![v])
        } else {
            let mut m = std::collections::BTreeMap::new();
            m.insert("a".to_string(), v);
            RVal::Obj(m)
        };
    }
    v
}

#[cfg(test)]
mod tests {
    use super::*;
    #[test]
    fn sizes() {
        assert_eq!(d2().len(), 2149);
        assert_eq!(d2k_uni().count(2), 218097);
        assert_eq!(d3_uni().count(3), 998994);
        assert_eq!(d3x_uni().count(3), 9242854);
        assert_eq!(p5().len(), 5156);
        let all = d2();
        let mut s = std::collections::BTreeSet::new();
        for v in &all {
            assert!(s.insert(v.clone()));
        }
    }
}

// ---------------------------------------------------------------------------------------------
// wide and deep families (more than 3 siblings, more than 3 levels)

fn kind5() -> Vec<RVal> {
    vec![RVal::Null, RVal::u(1), RVal::s("ab"), RVal::arr(vec![]), RVal::obj(vec![("a", RVal::Null)])]
}

/// number of wide documents: arrays and objects with exactly 4, 5, 6 children over 5 kinds
pub fn wide_count() -> u64 {
    2 * (5u64.pow(4) + 5u64.pow(5) + 5u64.pow(6))
}

pub fn wide_nth(mut i: u64) -> RVal {
    let k = kind5();
    let as_obj = i % 2 == 1;
    i /= 2;
    let mut n = 4u32;
    while i >= 5u64.pow(n) {
        i -= 5u64.pow(n);
        n += 1;
    }
    let mut items = Vec::with_capacity(n as usize);
    for _ in 0..n {
        items.push(k[(i % 5) as usize].clone());
        i /= 5;
    }
    if as_obj {
        let keys = ["", "a", "ab", "b", "é", "z"];
        RVal::Obj(items.into_iter().enumerate().map(|(j, v)| (keys[j].to_string(), v)).collect())
    } else {
        RVal::Arr(items)
    }
}

/// deep documents: depth 4..=6, at every level one of 5 sibling patterns around the child
pub fn deep_count() -> u64 {
    5u64.pow(4) + 5u64.pow(5) + 5u64.pow(6)
}

pub fn deep_nth(mut i: u64) -> RVal {
    let mut d = 4u32;
    while i >= 5u64.pow(d) {
        i -= 5u64.pow(d);
        d += 1;
    }
    let mut v = RVal::s("leaf");
    for lvl in 0..d {
        let pat = i % 5;
        i /= 5;
        let sib = if lvl % 2 == 0 { RVal::u(300) } else { RVal::Null };
        v = match pat {
            0 => RVal::Arr(vec![v]),
            1 => RVal::Arr(vec![sib, v]),
            2 => RVal::Arr(vec![v, sib]),
            3 => RVal::obj(vec![("a", sib), ("b", v)]),
            _ => RVal::obj(vec![("a", v), ("z", sib)]),
        };
    }
    v
}

/// the key path from the root of a document down along its first container / "leaf" child
/// (total: stops where no such child exists)
pub fn spine(v: &RVal) -> Vec<crate::ops::KP> {
    let is_next = |x: &RVal| x.is_container() || matches!(x, RVal::Str(s) if s == "leaf");
    let mut out = vec![];
    let mut cur = v;
    loop {
        match cur {
            RVal::Arr(a) => match a.iter().position(is_next) {
                Some(i) => {
                    out.push(crate::ops::KP::Index(i as i32));
                    cur = &a[i];
                }
                None => return out,
            },
            RVal::Obj(o) => match o.iter().find(|(_, x)| is_next(x)) {
                Some((k, x)) => {
                    out.push(crate::ops::KP::Name(k.clone()));
                    cur = x;
                }
                None => return out,
            },
            _ => return out,
        }
    }
}

/// depth-3 universe over {"", 1} with key "a": empty strings and zero-length payloads nested at
/// every level ([""] is exactly 8 bytes, [[""]] 16 ...)
pub fn d3e_uni() -> Uni {
    Uni::new(vec![RVal::s(""), RVal::u(1)], vec!["a"], 2, 3)
}

/// objects over 9 keys whose byte order, length order and case-folded order all differ
/// ("" < "A" < "a" < "aa" < "ab" < "b" < "ba" < "z" < "é"; lengths 0,1,1,2,2,1,2,1,2), every subset
/// of <= 3 keys, values distinct and of different widths
pub const ORDER_KEYS: [&str; 9] = ["", "A", "a", "aa", "ab", "b", "ba", "z", "é"];

pub fn keyorder_docs() -> Vec<RVal> {
    let vals = [RVal::u(1), RVal::s("two"), RVal::Null, RVal::arr(vec![RVal::u(3)]), RVal::u(70000), RVal::obj(vec![("k", RVal::Null)]), RVal::f(1.5), RVal::s(""), RVal::Bool(true)];
    let mut out = vec![];
    let n = ORDER_KEYS.len();
    for mask in 1u32..(1 << n) {
        if mask.count_ones() > 3 {
            continue;
        }
        let mut m = std::collections::BTreeMap::new();
        for i in 0..n {
            if mask & (1 << i) != 0 {
                m.insert(ORDER_KEYS[i].to_string(), vals[(i + mask as usize) % vals.len()].clone());
            }
        }
        out.push(RVal::Obj(m));
    }
    out
}

/// objects whose keys come from the special-string alphabet SSTR (NUL, control characters, quote,
/// backslash, non-BMP, U+2028, 0x7f, keys that are prefixes of one another, keys spelled like
/// literals): every single key, every pair of keys, each also nested in an array
pub fn strkey_docs() -> Vec<RVal> {
    let ks = sstr();
    let mut out = vec![];
    for (i, a) in ks.iter().enumerate() {
        out.push(RVal::obj(vec![(a.as_str(), RVal::u(1))]));
        out.push(RVal::Arr(vec![RVal::obj(vec![(a.as_str(), RVal::s("x"))])]));
        for b in ks.iter().skip(i + 1) {
            out.push(RVal::obj(vec![(a.as_str(), RVal::u(1)), (b.as_str(), RVal::s("two"))]));
        }
    }
    out
}

/// scalars whose payload bytes look like structure: strings starting with (or made of) bytes that
/// are type tags, header bytes or number markers; integers and floats whose big-endian image holds
/// 0x00, 0x20, 0x22, 0x40, 0x50, 0x5c, 0x60, 0x80 bytes
pub fn tag_scalars() -> Vec<RVal> {
    let mut v: Vec<RVal> = vec![RVal::Null, RVal::Bool(true), RVal::Bool(false)];
    for s in [" ", " \0\0\0", "@", "@\0\0\u{1}", "P", "P\u{1}", "`", "0", "\u{10}", "\0", "\u{20}\u{0}\u{0}\u{0}\u{10}\u{0}\u{0}\u{0}", "\u{7f}", "\"", "\\"] {
        v.push(RVal::s(s));
    }
    for n in [0u64, 32, 34, 64, 80, 92, 96, 128, 0x0100, 0x2000, 0x2200, 0x4000, 0x5c00, 0x8000, 0x2222, 0x5c5c, 0x0001_0000, 0x2000_0000, 0x4000_0001, 0x8000_0000, 0x2000_0000_0000_0000, 0x8000_0000_0000_0000] {
        v.push(RVal::u(n));
    }
    for n in [-32i64, -34, -64, -92, -128, -256, -0x2000, -0x8000, -0x2000_0000, -0x8000_0000, i64::MIN] {
        v.push(RVal::i(n));
    }
    for f in [2.0f64, -2.0, 8.0, 0.5, 1.0000000000000002, 3.0e-320] {
        v.push(RVal::f(f));
    }
    v
}

/// keys that are keywords of the path language or literals
pub const KEYWORD_KEYS: [&str; 9] = ["last", "to", "exists", "null", "true", "false", "$", "@", "a"];

/// documents over the tag-like scalars: each alone, as the only element, every ordered pair as an
/// array, each under every keyword key, and two-member objects over neighbouring keyword keys
pub fn tagv_docs() -> Vec<RVal> {
    let sc = tag_scalars();
    let mut out = vec![];
    for (i, a) in sc.iter().enumerate() {
        out.push(a.clone());
        out.push(RVal::Arr(vec![a.clone()]));
        for b in sc.iter() {
            out.push(RVal::Arr(vec![a.clone(), b.clone()]));
        }
        for (k, key) in KEYWORD_KEYS.iter().enumerate() {
            out.push(RVal::obj(vec![(key, a.clone())]));
            let k2 = KEYWORD_KEYS[(k + 1) % KEYWORD_KEYS.len()];
            out.push(RVal::obj(vec![(key, a.clone()), (k2, sc[(i + 7 * k + 3) % sc.len()].clone())]));
        }
    }
    out
}

/// a smaller family for the all-pairs relations: each tag-like scalar alone, as only element, as
/// only member, and paired with 8 representatives in both orders
pub fn tagv_relation_docs() -> Vec<RVal> {
    let sc = tag_scalars();
    let reps: Vec<RVal> = sc.iter().step_by(7).cloned().collect();
    let mut out = vec![];
    for a in sc.iter() {
        out.push(a.clone());
        out.push(RVal::Arr(vec![a.clone()]));
        out.push(RVal::obj(vec![("a", a.clone())]));
        for b in reps.iter() {
            out.push(RVal::Arr(vec![a.clone(), b.clone()]));
            out.push(RVal::Arr(vec![b.clone(), a.clone()]));
        }
    }
    let mut seen = std::collections::HashSet::new();
    out.into_iter().filter(|x| seen.insert(x.clone())).collect()
}
