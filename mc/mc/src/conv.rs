//! Conversions between the reference model's types and jsonb's.

use jsonb::{Number, Value};
use refmodel::{RNum, RVal};
use std::borrow::Cow;
use std::collections::BTreeMap;

pub fn to_num(n: &RNum) -> Number {
    match *n {
        RNum::U(u) => Number::UInt64(u),
        RNum::I(i) => Number::Int64(i),
        RNum::F(b) => Number::Float64(f64::from_bits(b)),
    }
}

/// exact structural image of a jsonb Number (no normalisation except canonical NaN)
pub fn from_num_raw(n: &Number) -> RNum {
    match n {
        Number::UInt64(u) => RNum::U(*u),
        Number::Int64(i) => RNum::I(*i),
        Number::Float64(f) => RNum::f(*f),
    }
}

/// image in the model's normal form (Int64(0) -> U(0))
pub fn from_num(n: &Number) -> RNum {
    match n {
        Number::UInt64(u) => RNum::U(*u),
        Number::Int64(i) => RNum::i(*i),
        Number::Float64(f) => RNum::f(*f),
    }
}

pub fn to_value(v: &RVal) -> Value<'static> {
    match v {
        RVal::Null => Value::Null,
        RVal::Bool(b) => Value::Bool(*b),
        RVal::Num(n) => Value::Number(to_num(n)),
        RVal::Str(s) => Value::String(Cow::Owned(s.clone())),
        RVal::Arr(a) => Value::Array(a.iter().map(to_value).collect()),
        RVal::Obj(o) => {
            let mut m = BTreeMap::new();
            for (k, x) in o {
                m.insert(k.clone(), to_value(x));
            }
            Value::Object(m)
        }
    }
}

/// A `str` handed out by the implementation may hold ill-formed UTF-8 (`from_utf8_unchecked`).
/// Touching such a string with char-level operations is undefined behaviour and, with debug
/// assertions on, aborts the whole process.  Every string that crosses from the implementation
/// into the harness goes through here: valid strings are copied, ill-formed ones become a
/// recognisable lossy marker (which no model value equals, so the case is reported).
pub fn safe_string(s: &str) -> String {
    match std::str::from_utf8(s.as_bytes()) {
        Ok(x) => x.to_string(),
        Err(_) => format!("ILL-FORMED-UTF8[{}]", refmodel::layout::hex(s.as_bytes())),
    }
}

pub fn from_value(v: &Value) -> RVal {
    from_value_opt(v, false)
}

/// like `from_value` but without normalising Int64(0)
pub fn from_value_raw(v: &Value) -> RVal {
    from_value_opt(v, true)
}

fn from_value_opt(v: &Value, raw: bool) -> RVal {
    match v {
        Value::Null => RVal::Null,
        Value::Bool(b) => RVal::Bool(*b),
        Value::Number(n) => RVal::Num(if raw { from_num_raw(n) } else { from_num(n) }),
        Value::String(s) => RVal::Str(safe_string(s)),
        Value::Array(a) => RVal::Arr(a.iter().map(|x| from_value_opt(x, raw)).collect()),
        Value::Object(o) => RVal::Obj(
            o.iter()
                .map(|(k, x)| (safe_string(k), from_value_opt(x, raw)))
                .collect(),
        ),
    }
}

/// every string and key inside a value is well-formed UTF-8 (checks the bytes; a `str` built by
/// `from_utf8_unchecked` can hold anything)
pub fn value_strings_wellformed(v: &Value) -> bool {
    match v {
        Value::String(s) => std::str::from_utf8(s.as_bytes()).is_ok(),
        Value::Array(a) => a.iter().all(value_strings_wellformed),
        Value::Object(o) => o
            .iter()
            .all(|(k, x)| std::str::from_utf8(k.as_bytes()).is_ok() && value_strings_wellformed(x)),
        _ => true,
    }
}

pub fn from_serde(v: &serde_json::Value) -> RVal {
    match v {
        serde_json::Value::Null => RVal::Null,
        serde_json::Value::Bool(b) => RVal::Bool(*b),
        serde_json::Value::Number(n) => {
            if let Some(u) = n.as_u64() {
                RVal::Num(RNum::U(u))
            } else if let Some(i) = n.as_i64() {
                RVal::Num(RNum::i(i))
            } else {
                RVal::Num(RNum::f(n.as_f64().unwrap()))
            }
        }
        serde_json::Value::String(s) => RVal::Str(s.clone()),
        serde_json::Value::Array(a) => RVal::Arr(a.iter().map(from_serde).collect()),
        serde_json::Value::Object(o) => {
            RVal::Obj(o.iter().map(|(k, x)| (k.clone(), from_serde(x))).collect())
        }
    }
}
