fn main() { refmodel::hi(); let v = jsonb::parse_value(b"[1]").unwrap(); println!("{:?}", v.to_vec()); }
