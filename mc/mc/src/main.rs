mod bigalloc;
mod calls;
mod checks;
mod conv;
mod harness;
mod isolate;
mod laws;
mod pathconv;
mod univ;

use harness::*;
use std::time::Instant;

#[global_allocator]
static GLOBAL: bigalloc::BigAlloc = bigalloc::BigAlloc;

fn usage() -> ! {
    eprintln!("usage: mc check <ID> [--tier quick|thorough] | mc replay <file>");
    std::process::exit(2)
}

pub struct Plan {
    pub spaces: Vec<Space<'static>>,
    pub rule: String,
    pub bounds: serde_json::Value,
    pub assumptions: Vec<String>,
}

fn plan(prop: &str, tier: Tier) -> Option<Plan> {
    let (spaces, (rule, bounds, assumptions)) = match prop {
        "C20" => (checks::c20::spaces(tier), checks::c20::meta(tier)),
        "C01" => (checks::c01::spaces(tier), checks::c01::meta(tier)),
        "C02" => (checks::c02::spaces(tier), checks::c02::meta(tier)),
        "C03" => (checks::c03::spaces(tier), checks::c03::meta(tier)),
        "C04" => (checks::c04::spaces(tier), checks::c04::meta(tier)),
        "C05" => (checks::c05::spaces(tier), checks::c05::meta(tier)),
        "C06" => (checks::c06::spaces(tier), checks::c06::meta(tier)),
        "C07" => (checks::c07::spaces(tier), checks::c07::meta(tier)),
        "C08" => (checks::c08::spaces(tier), checks::c08::meta(tier)),
        "C09" => (checks::c09::spaces(tier), checks::c09::meta(tier)),
        "C16" => (checks::c16::spaces(tier), checks::c16::meta(tier)),
        "C10" => (checks::c10::spaces(tier), checks::c10::meta(tier)),
        "C11" => (checks::c11::spaces(tier), checks::c11::meta(tier)),
        "C12" => (checks::c12::spaces(tier), checks::c12::meta(tier)),
        "C13" => (checks::c13::spaces(tier), checks::c13::meta(tier)),
        "C14" => (checks::c14::spaces(tier), checks::c14::meta(tier)),
        "C19" => (checks::c19::spaces(tier), checks::c19::meta(tier)),
        "C15" => (checks::c15::spaces(tier), checks::c15::meta(tier)),
        "C17" => (checks::c17::spaces(tier), checks::c17::meta(tier)),
        "C18" => (checks::c18::spaces(tier), checks::c18::meta(tier)),
        _ => return None,
    };
    Some(Plan { spaces, rule, bounds, assumptions })
}

fn main() {
    let args: Vec<String> = std::env::args().collect();
    if args.len() < 3 {
        usage();
    }
    if std::env::var("MC_SYSTEM_ALLOC").is_ok() || args[1] == "worker" {
        bigalloc::disable();
    }
    install_panic_hook();
    let seed: i64 = std::env::var("VERIF_SEED").ok().and_then(|s| s.parse().ok()).unwrap_or(0);
    match args[1].as_str() {
        "check" => {
            let prop = args[2].clone();
            let mut tier = match std::env::var("VERIF_TIER").as_deref() {
                Ok("thorough") => Tier::Thorough,
                _ => Tier::Quick,
            };
            let mut i = 3;
            while i < args.len() {
                if args[i] == "--tier" && i + 1 < args.len() {
                    tier = if args[i + 1] == "thorough" { Tier::Thorough } else { Tier::Quick };
                    i += 1;
                }
                i += 1;
            }
            let t0 = Instant::now();
            let Some(p) = plan(&prop, tier) else {
                eprintln!("unknown property {}", prop);
                std::process::exit(2);
            };
            eprintln!("== {} {} ==", prop, tier.name());
            let (acc, sizes) = run_spaces(&p.spaces);
            let caps: Vec<String> = acc.notes.keys().filter(|k| k.starts_with("CAP:") || k.starts_with("time cap")).cloned().collect();
            let out = Outcome {
                acc,
                spaces: sizes,
                bounds: p.bounds,
                rule: p.rule,
                assumptions: p.assumptions,
                exhaustive: true,
                caps_hit: caps,
                extra: [
                    ("largest_single_allocation_request_bytes".to_string(), serde_json::json!(bigalloc::BIGGEST.load(std::sync::atomic::Ordering::Relaxed))),
                    ("allocation_requests_over_16MiB".to_string(), serde_json::json!(bigalloc::BIG_REQUESTS.load(std::sync::atomic::Ordering::Relaxed))),
                ]
                .into_iter()
                .collect(),
            };
            let code = finish(&prop, tier, seed, t0, out, Some(&p.spaces));
            std::process::exit(code);
        }
        // probe: parse a JSONPath text with jsonb, show the AST and run it on a JSON document
        "path" => {
            let text = args[2].clone();
            let doc = args.get(3).cloned().unwrap_or("null".into());
            let r = harness::guard(|| jsonb::jsonpath::parse_json_path(text.as_bytes()).map(|p| format!("{:?}", p)));
            println!("parse: {:?}", r.map_err(|p| harness::panic_class(&p)));
            if let Ok(p) = jsonb::jsonpath::parse_json_path(text.as_bytes()) {
                let bytes = jsonb::parse_value(doc.as_bytes()).expect("bad JSON document").to_vec();
                let r = harness::guard(|| {
                    let sel = jsonb::jsonpath::Selector::new(p.clone(), jsonb::jsonpath::Mode::All);
                    let (mut d, mut o) = (vec![], vec![]);
                    let r = sel.select(&bytes, &mut d, &mut o);
                    (format!("{:?}", r), d, o)
                });
                println!("select: {:?}", r.map_err(|p| harness::panic_class(&p)));
            }
        }
        "replay" => {
            let body = std::fs::read_to_string(&args[2]).expect("cannot read replay file");
            let v: serde_json::Value = serde_json::from_str(&body).expect("bad replay file");
            let prop = v["property"].as_str().unwrap().to_string();
            let tier = if v["tier"] == "thorough" { Tier::Thorough } else { Tier::Quick };
            let space = v["space"].as_str().unwrap();
            let index = v["index"].as_u64().unwrap();
            let p = plan(&prop, tier).expect("unknown property");
            match rerun(&p.spaces, space, index) {
                Some(acc) => {
                    if acc.vios.is_empty() {
                        println!("replay: no violation at {}[{}]", space, index);
                        std::process::exit(0);
                    }
                    for (c, x) in &acc.vios {
                        println!("replay: class={} detail={}", c, x.detail);
                    }
                    println!("VIOLATION property={} replay={}", prop, args[2]);
                    std::process::exit(1);
                }
                None => {
                    eprintln!("replay: space {} not found", space);
                    std::process::exit(2);
                }
            }
        }
        "worker" => {
            let kind = args[2].clone();
            let f: Box<dyn Fn(&str) -> String> = match kind.as_str() {
                "c10" => Box::new(|c| checks::c10::worker(c)),
                "c20" => Box::new(|c| checks::c20::worker(c)),
                _ => usage(),
            };
            isolate::worker_loop(&*f);
        }
        _ => usage(),
    }
}
