//! Conversions between the model's JSONPath AST and jsonb's.
use jsonb::jsonpath as jp;
use refmodel::jpath::*;
use std::borrow::Cow;

fn to_idx(i: &Idx) -> jp::Index {
    match i {
        Idx::N(n) => jp::Index::Index(*n),
        Idx::Last(k) => jp::Index::LastIndex(*k),
    }
}

fn from_idx(i: &jp::Index) -> Idx {
    match i {
        jp::Index::Index(n) => Idx::N(*n),
        jp::Index::LastIndex(k) => Idx::Last(*k),
    }
}

pub fn to_impl_step(s: &Step) -> jp::Path<'static> {
    match s {
        Step::Root => jp::Path::Root,
        Step::Current => jp::Path::Current,
        Step::DotWild => jp::Path::DotWildcard,
        Step::BracketWild => jp::Path::BracketWildcard,
        Step::Dot(n) => jp::Path::DotField(Cow::Owned(n.clone())),
        Step::Colon(n) => jp::Path::ColonField(Cow::Owned(n.clone())),
        Step::ObjField(n) => jp::Path::ObjectField(Cow::Owned(n.clone())),
        Step::Indices(v) => jp::Path::ArrayIndices(
            v.iter()
                .map(|a| match a {
                    AIdx::One(i) => jp::ArrayIndex::Index(to_idx(i)),
                    AIdx::Slice(s, e) => jp::ArrayIndex::Slice((to_idx(s), to_idx(e))),
                })
                .collect(),
        ),
        Step::Filter(e) => jp::Path::FilterExpr(Box::new(to_impl_expr(e))),
        Step::Predicate(e) => jp::Path::Predicate(Box::new(to_impl_expr(e))),
    }
}

pub fn to_impl_expr(e: &Expr) -> jp::Expr<'static> {
    let bin = |op: jp::BinaryOperator, l: &Expr, r: &Expr| jp::Expr::BinaryOp { op, left: Box::new(to_impl_expr(l)), right: Box::new(to_impl_expr(r)) };
    match e {
        Expr::Paths(p) => jp::Expr::Paths(p.iter().map(to_impl_step).collect()),
        Expr::Lit(l) => jp::Expr::Value(Box::new(match l {
            Lit::Null => jp::PathValue::Null,
            Lit::Bool(b) => jp::PathValue::Boolean(*b),
            Lit::Num(n) => jp::PathValue::Number(crate::conv::to_num(n)),
            Lit::Str(s) => jp::PathValue::String(Cow::Owned(s.clone())),
        })),
        Expr::Cmp(c, l, r) => bin(
            match c {
                Cmp::Eq => jp::BinaryOperator::Eq,
                Cmp::Ne => jp::BinaryOperator::NotEq,
                Cmp::Lt => jp::BinaryOperator::Lt,
                Cmp::Le => jp::BinaryOperator::Lte,
                Cmp::Gt => jp::BinaryOperator::Gt,
                Cmp::Ge => jp::BinaryOperator::Gte,
            },
            l,
            r,
        ),
        Expr::And(l, r) => bin(jp::BinaryOperator::And, l, r),
        Expr::Or(l, r) => bin(jp::BinaryOperator::Or, l, r),
        Expr::Exists(p) => jp::Expr::FilterFunc(jp::FilterFunc::Exists(p.iter().map(to_impl_step).collect())),
        Expr::ArithUnary(op, x) => jp::Expr::ArithmeticFunc(jp::ArithmeticFunc::Unary {
            op: if *op == '+' { jp::UnaryArithmeticOperator::Add } else { jp::UnaryArithmeticOperator::Subtract },
            operand: Box::new(to_impl_expr(x)),
        }),
        Expr::ArithBinary(op, l, r) => jp::Expr::ArithmeticFunc(jp::ArithmeticFunc::Binary {
            op: match op {
                '+' => jp::BinaryArithmeticOperator::Add,
                '-' => jp::BinaryArithmeticOperator::Subtract,
                '*' => jp::BinaryArithmeticOperator::Multiply,
                '/' => jp::BinaryArithmeticOperator::Divide,
                _ => jp::BinaryArithmeticOperator::Modulus,
            },
            left: Box::new(to_impl_expr(l)),
            right: Box::new(to_impl_expr(r)),
        }),
    }
}

pub fn to_impl_path(p: &JPath) -> jp::JsonPath<'static> {
    jp::JsonPath { paths: p.0.iter().map(to_impl_step).collect() }
}

pub fn from_impl_step(s: &jp::Path) -> Step {
    match s {
        jp::Path::Root => Step::Root,
        jp::Path::Current => Step::Current,
        jp::Path::DotWildcard => Step::DotWild,
        jp::Path::BracketWildcard => Step::BracketWild,
        jp::Path::DotField(n) => Step::Dot(crate::conv::safe_string(n)),
        jp::Path::ColonField(n) => Step::Colon(crate::conv::safe_string(n)),
        jp::Path::ObjectField(n) => Step::ObjField(crate::conv::safe_string(n)),
        jp::Path::ArrayIndices(v) => Step::Indices(
            v.iter()
                .map(|a| match a {
                    jp::ArrayIndex::Index(i) => AIdx::One(from_idx(i)),
                    jp::ArrayIndex::Slice((s, e)) => AIdx::Slice(from_idx(s), from_idx(e)),
                })
                .collect(),
        ),
        jp::Path::FilterExpr(e) | jp::Path::ArithmeticExpr(e) => Step::Filter(Box::new(from_impl_expr(e))),
        jp::Path::Predicate(e) => Step::Predicate(Box::new(from_impl_expr(e))),
    }
}

pub fn from_impl_expr(e: &jp::Expr) -> Expr {
    match e {
        jp::Expr::Paths(p) => Expr::Paths(p.iter().map(from_impl_step).collect()),
        jp::Expr::Value(v) => Expr::Lit(match &**v {
            jp::PathValue::Null => Lit::Null,
            jp::PathValue::Boolean(b) => Lit::Bool(*b),
            jp::PathValue::Number(n) => Lit::Num(crate::conv::from_num_raw(n)),
            jp::PathValue::String(s) => Lit::Str(crate::conv::safe_string(s)),
        }),
        jp::Expr::BinaryOp { op, left, right } => {
            let (l, r) = (Box::new(from_impl_expr(left)), Box::new(from_impl_expr(right)));
            match op {
                jp::BinaryOperator::And => Expr::And(l, r),
                jp::BinaryOperator::Or => Expr::Or(l, r),
                jp::BinaryOperator::Eq => Expr::Cmp(Cmp::Eq, l, r),
                jp::BinaryOperator::NotEq => Expr::Cmp(Cmp::Ne, l, r),
                jp::BinaryOperator::Lt => Expr::Cmp(Cmp::Lt, l, r),
                jp::BinaryOperator::Lte => Expr::Cmp(Cmp::Le, l, r),
                jp::BinaryOperator::Gt => Expr::Cmp(Cmp::Gt, l, r),
                jp::BinaryOperator::Gte => Expr::Cmp(Cmp::Ge, l, r),
            }
        }
        jp::Expr::ArithmeticFunc(jp::ArithmeticFunc::Unary { op, operand }) => Expr::ArithUnary(if *op == jp::UnaryArithmeticOperator::Add { '+' } else { '-' }, Box::new(from_impl_expr(operand))),
        jp::Expr::ArithmeticFunc(jp::ArithmeticFunc::Binary { op, left, right }) => Expr::ArithBinary(
            match op {
                jp::BinaryArithmeticOperator::Add => '+',
                jp::BinaryArithmeticOperator::Subtract => '-',
                jp::BinaryArithmeticOperator::Multiply => '*',
                jp::BinaryArithmeticOperator::Divide => '/',
                jp::BinaryArithmeticOperator::Modulus => '%',
            },
            Box::new(from_impl_expr(left)),
            Box::new(from_impl_expr(right)),
        ),
        jp::Expr::FilterFunc(jp::FilterFunc::Exists(p)) => Expr::Exists(p.iter().map(from_impl_step).collect()),
    }
}

pub fn from_impl_path(p: &jp::JsonPath) -> JPath {
    JPath(p.paths.iter().map(from_impl_step).collect())
}
