//! Shared machinery: panic capture, accumulators, parallel exhaustive sweeps, evidence and
//! replay files, known-finding classification.

use rayon::prelude::*;
use serde_json::{json, Value as J};
use std::cell::RefCell;
use std::collections::BTreeMap;
use std::panic::{catch_unwind, AssertUnwindSafe};
use std::time::Instant;

#[derive(Clone, Copy, PartialEq, Eq, Debug)]
pub enum Tier {
    Quick,
    Thorough,
}

impl Tier {
    pub fn name(&self) -> &'static str {
        match self {
            Tier::Quick => "quick",
            Tier::Thorough => "thorough",
        }
    }
    pub fn thorough(&self) -> bool {
        *self == Tier::Thorough
    }
}

// ---------------------------------------------------------------------------------------------
// panic capture

#[derive(Clone, Debug, PartialEq, Eq)]
pub struct PanicInfo {
    pub site: String,
    pub msg: String,
}

thread_local! {
    static LAST_PANIC: RefCell<Option<PanicInfo>> = const { RefCell::new(None) };
    static IN_GUARD: RefCell<u32> = const { RefCell::new(0) };
}

pub fn install_panic_hook() {
    let default = std::panic::take_hook();
    std::panic::set_hook(Box::new(move |info| {
        let guarded = IN_GUARD.with(|g| *g.borrow() > 0);
        if !guarded {
            default(info);
            return;
        }
        let site = info
            .location()
            .map(|l| {
                let f = l.file();
                // normalise to a path relative to the repository
                let f = f.strip_prefix("/repo/").unwrap_or(f);
                format!("{}:{}", f, l.line())
            })
            .unwrap_or_else(|| "?".into());
        let msg = if let Some(s) = info.payload().downcast_ref::<&str>() {
            s.to_string()
        } else if let Some(s) = info.payload().downcast_ref::<String>() {
            s.clone()
        } else {
            "?".into()
        };
        LAST_PANIC.with(|p| *p.borrow_mut() = Some(PanicInfo { site, msg }));
    }));
}

/// Run `f`, turning a panic into a recorded outcome.
pub fn guard<T>(f: impl FnOnce() -> T) -> Result<T, PanicInfo> {
    IN_GUARD.with(|g| *g.borrow_mut() += 1);
    let r = catch_unwind(AssertUnwindSafe(f));
    IN_GUARD.with(|g| *g.borrow_mut() -= 1);
    match r {
        Ok(v) => Ok(v),
        Err(_) => Err(LAST_PANIC
            .with(|p| p.borrow_mut().take())
            .unwrap_or(PanicInfo {
                site: "?".into(),
                msg: "?".into(),
            })),
    }
}

/// site without the line number's volatility: file + message head (used in violation classes)
pub fn panic_class(p: &PanicInfo) -> String {
    let file = p.site.split(':').next().unwrap_or("?");
    // digits vary with the input (indices, lengths): normalise them so one defect is one class
    let mut head = String::new();
    let mut last_digit = false;
    for c in p.msg.chars().take(64) {
        if c.is_ascii_digit() {
            if !last_digit {
                head.push('#');
            }
            last_digit = true;
        } else {
            head.push(c);
            last_digit = false;
        }
    }
    format!("panic@{}:{}", file, head)
}

// ---------------------------------------------------------------------------------------------
// accumulator

#[derive(Clone, Debug)]
pub struct Vio {
    pub class: String,
    pub count: u64,
    pub space: String,
    pub index: u64,
    pub detail: J,
}

#[derive(Default, Clone)]
pub struct Acc {
    pub evaluations: u64,
    pub nontrivial: u64,
    pub unspecified: u64,
    pub states: u64,
    pub outcomes: BTreeMap<String, u64>,
    pub vios: BTreeMap<String, Vio>,
    pub samples: Vec<J>,
    pub notes: BTreeMap<String, u64>,
    // coordinates of the case being run (set by the sweep driver)
    pub cur_space: String,
    pub cur_index: u64,
    pub want_sample: bool,
}

impl Acc {
    pub fn eval(&mut self) {
        self.evaluations += 1;
    }
    pub fn evals(&mut self, n: u64) {
        self.evaluations += n;
    }
    pub fn outcome(&mut self, k: &str) {
        *self.outcomes.entry(k.to_string()).or_insert(0) += 1;
    }
    pub fn note(&mut self, k: &str, n: u64) {
        *self.notes.entry(k.to_string()).or_insert(0) += n;
    }
    pub fn sample(&mut self, f: impl FnOnce() -> J) {
        if self.want_sample {
            self.samples.push(f());
            self.want_sample = false;
        }
    }
    /// record a violation of class `class`; `detail` is only evaluated for the first of a class
    pub fn vio(&mut self, class: &str, detail: impl FnOnce() -> J) {
        if let Some(v) = self.vios.get_mut(class) {
            v.count += 1;
        } else {
            self.vios.insert(
                class.to_string(),
                Vio {
                    class: class.to_string(),
                    count: 1,
                    space: self.cur_space.clone(),
                    index: self.cur_index,
                    detail: detail(),
                },
            );
        }
    }
    pub fn merge(&mut self, o: Acc) {
        self.evaluations += o.evaluations;
        self.nontrivial += o.nontrivial;
        self.unspecified += o.unspecified;
        self.states += o.states;
        for (k, v) in o.outcomes {
            *self.outcomes.entry(k).or_insert(0) += v;
        }
        for (k, v) in o.notes {
            *self.notes.entry(k).or_insert(0) += v;
        }
        for (k, v) in o.vios {
            if let Some(e) = self.vios.get_mut(&k) {
                e.count += v.count;
            } else {
                self.vios.insert(k, v);
            }
        }
        for s in o.samples {
            if self.samples.len() < 12 {
                self.samples.push(s);
            }
        }
    }
}

/// Exhaustively run `f` on every index of [0, n), in parallel, merging deterministically in
/// index order (the recorded first violation of a class is the one with the lowest index).
pub fn sweep(space: &str, n: u64, f: &(dyn Fn(u64, &mut Acc) + Sync)) -> Acc {
    if n == 0 {
        return Acc::default();
    }
    let threads = rayon::current_num_threads() as u64;
    let nchunks = (threads * 8).min(n).max(1);
    let chunk = n.div_ceil(nchunks);
    let ranges: Vec<(u64, u64)> = (0..nchunks)
        .map(|c| (c * chunk, ((c + 1) * chunk).min(n)))
        .filter(|(a, b)| a < b)
        .collect();
    let parts: Vec<Acc> = ranges
        .par_iter()
        .map(|&(a, b)| {
            let mut acc = Acc {
                cur_space: space.to_string(),
                ..Default::default()
            };
            for i in a..b {
                acc.cur_index = i;
                // sample the first case of a few chunks
                acc.want_sample = i == a && acc.samples.is_empty();
                // a panic that escapes a check's own guards (e.g. inside a law computation) is still
                // a recorded outcome attributed to this case, never the end of the exploration
                if let Err(p) = guard(|| f(i, &mut acc)) {
                    let site = p.site.clone();
                    acc.vio(&format!("panic-outside-guard:{}", panic_class(&p)), || serde_json::json!({"site": site, "msg": p.msg}));
                }
            }
            acc
        })
        .collect();
    let mut total = Acc::default();
    for p in parts {
        total.merge(p);
    }
    total
}

// ---------------------------------------------------------------------------------------------
// spaces and checks

pub struct Space<'a> {
    pub name: String,
    pub count: u64,
    pub run: Box<dyn Fn(u64, &mut Acc) + Sync + 'a>,
    /// this space enumerates its whole finite domain
    pub exhaustive: bool,
}

impl<'a> Space<'a> {
    pub fn new(name: &str, count: u64, run: impl Fn(u64, &mut Acc) + Sync + 'a) -> Space<'a> {
        Space {
            name: name.to_string(),
            count,
            run: Box::new(run),
            exhaustive: true,
        }
    }
}

pub struct Outcome {
    pub acc: Acc,
    pub spaces: Vec<(String, u64)>,
    pub bounds: J,
    pub rule: String,
    pub assumptions: Vec<String>,
    pub exhaustive: bool,
    pub caps_hit: Vec<String>,
    pub extra: BTreeMap<String, J>,
}

pub fn run_spaces(spaces: &[Space]) -> (Acc, Vec<(String, u64)>) {
    let mut total = Acc::default();
    let mut sizes = vec![];
    for s in spaces {
        let t0 = Instant::now();
        let acc = sweep(&s.name, s.count, &*s.run);
        eprintln!(
            "  space {:<28} n={:<12} evals={:<12} vio_classes={} ({:.1}s)",
            s.name,
            s.count,
            acc.evaluations,
            acc.vios.len(),
            t0.elapsed().as_secs_f64()
        );
        sizes.push((s.name.clone(), s.count));
        total.merge(acc);
    }
    (total, sizes)
}

/// Re-run one index of one space (replay / determinism check).
pub fn rerun(spaces: &[Space], space: &str, index: u64) -> Option<Acc> {
    let s = spaces.iter().find(|s| s.name == space)?;
    let mut acc = Acc {
        cur_space: space.to_string(),
        cur_index: index,
        ..Default::default()
    };
    if let Err(p) = guard(|| (s.run)(index, &mut acc)) {
        acc.vio(&format!("panic-outside-guard:{}", panic_class(&p)), || serde_json::json!({"site": p.site, "msg": p.msg}));
    }
    Some(acc)
}

// ---------------------------------------------------------------------------------------------
// known findings

#[derive(Clone, Debug)]
pub struct Known {
    pub id: String,
    pub property: String,
    pub class: String,
    pub what: String,
}

pub fn load_known(path: &str) -> Vec<Known> {
    let Ok(s) = std::fs::read_to_string(path) else {
        return vec![];
    };
    let v: J = serde_json::from_str(&s).expect("known_findings.json is not valid JSON");
    let mut out = vec![];
    if let Some(arr) = v.get("open").and_then(|x| x.as_array()) {
        for e in arr {
            out.push(Known {
                id: e["id"].as_str().unwrap_or("").to_string(),
                property: e["property"].as_str().unwrap_or("").to_string(),
                class: e["class"].as_str().unwrap_or("").to_string(),
                what: e["what"].as_str().unwrap_or("").to_string(),
            });
        }
    }
    out
}

pub fn verif_root() -> String {
    std::env::var("VERIF_ROOT").unwrap_or_else(|_| "/verif".to_string())
}

pub struct Verdict {
    pub unknown: Vec<Vio>,
    pub known_hit: BTreeMap<String, u64>,
}

/// long strings (whole documents of the scale universe) are cut in the replay files; the replay
/// itself re-derives the case from (space, index)
fn truncate(v: &J) -> J {
    match v {
        J::String(s) if s.len() > 1500 => J::String(format!("{}… [{} bytes in total]", s.chars().take(1500).collect::<String>(), s.len())),
        J::Array(a) => J::Array(a.iter().map(truncate).collect()),
        J::Object(o) => J::Object(o.iter().map(|(k, x)| (k.clone(), truncate(x))).collect()),
        x => x.clone(),
    }
}

/// Classify, print the interface lines, write replay files.  Returns the process exit code.
pub fn finish(
    prop: &str,
    tier: Tier,
    seed: i64,
    t0: Instant,
    out: Outcome,
    spaces_for_rerun: Option<&[Space]>,
) -> i32 {
    let root = verif_root();
    let known = load_known(&format!("{}/known_findings.json", root));
    let mut unknown: Vec<Vio> = vec![];
    let mut known_hit: BTreeMap<String, (String, u64)> = BTreeMap::new();
    for (class, v) in &out.acc.vios {
        if let Some(k) = known
            .iter()
            .find(|k| k.property == prop && &k.class == class)
        {
            let e = known_hit
                .entry(k.id.clone())
                .or_insert((k.what.clone(), 0));
            e.1 += v.count;
        } else {
            unknown.push(v.clone());
        }
    }
    // determinism: re-execute each unknown violation twice from its coordinates.  Only violations
    // that reproduce both times are reported.  The oracle and the enumeration are deterministic, so
    // one that does not reproduce means the implementation's behaviour depended on something outside
    // the inputs (e.g. allocation addresses): it is dropped with a note; if NOTHING reproduces the
    // run is a machinery failure (exit 2), never a verdict.
    let mut machinery_error = false;
    if let Some(spaces) = spaces_for_rerun {
        let before = unknown.len();
        let mut kept = vec![];
        for v in unknown.into_iter() {
            let mut ok = true;
            for _ in 0..2 {
                if let Some(acc) = rerun(spaces, &v.space, v.index) {
                    if !acc.vios.contains_key(&v.class) {
                        ok = false;
                    }
                }
            }
            if ok {
                kept.push(v);
            } else {
                eprintln!("NOTE: violation class {} at {}[{}] did not reproduce on re-execution; not reported", v.class, v.space, v.index);
            }
        }
        unknown = kept;
        if before > 0 && unknown.is_empty() {
            eprintln!("MACHINERY ERROR: none of the {} observed violation classes reproduced", before);
            machinery_error = true;
        }
    }
    for (id, (what, n)) in &known_hit {
        println!("KNOWN-FINDING: property={} {} [{}] ({} cases)", prop, what, id, n);
    }
    let mut replay_paths = vec![];
    if !unknown.is_empty() {
        let dir = format!("{}/replays/{}", root, prop);
        let _ = std::fs::create_dir_all(&dir);
        for v in &unknown {
            let mut h: u64 = 0xcbf29ce484222325;
            for b in v.class.bytes().chain(v.space.bytes()) {
                h = (h ^ b as u64).wrapping_mul(0x100000001b3);
            }
            h ^= v.index;
            let path = format!("{}/{:016x}.json", dir, h);
            let body = json!({
                "property": prop,
                "tier": tier.name(),
                "class": v.class,
                "count_in_run": v.count,
                "space": v.space,
                "index": v.index,
                "detail": truncate(&v.detail),
                "how_to_replay": format!("./mc/target/release/mc replay <this file>   (re-runs exactly {}[{}] with no explorer)", v.space, v.index),
            });
            let _ = std::fs::write(&path, serde_json::to_string_pretty(&body).unwrap());
            println!("VIOLATION property={} replay={}", prop, path);
            eprintln!(
                "  class={} count={} first={}[{}] detail={}",
                v.class,
                v.count,
                v.space,
                v.index,
                serde_json::to_string(&truncate(&v.detail)).unwrap_or_default()
            );
            replay_paths.push(path);
        }
    }
    // evidence
    let acc = &out.acc;
    let wall = t0.elapsed().as_secs_f64();
    let mut coverage = serde_json::Map::new();
    let states = if acc.states > 0 {
        acc.states
    } else {
        out.spaces.iter().map(|s| s.1).sum::<u64>()
    };
    coverage.insert("states".into(), json!(states));
    coverage.insert("transitions".into(), json!(acc.evaluations));
    coverage.insert(
        "traces_validated_against_impl".into(),
        json!(acc.evaluations),
    );
    coverage.insert("evaluations".into(), json!(acc.evaluations));
    coverage.insert("distinct_nontrivial".into(), json!(acc.nontrivial));
    coverage.insert("rule".into(), json!(out.rule));
    coverage.insert(
        "samples".into(),
        J::Array(if acc.samples.is_empty() {
            vec![json!("(no sample recorded)")]
        } else {
            acc.samples.clone()
        }),
    );
    coverage.insert("exhaustive".into(), json!(out.exhaustive && out.caps_hit.is_empty()));
    coverage.insert("bounds".into(), out.bounds.clone());
    coverage.insert("caps_hit".into(), json!(out.caps_hit));
    coverage.insert("unspecified_skipped".into(), json!(acc.unspecified));
    coverage.insert("outcome_classes".into(), json!(acc.outcomes));
    coverage.insert(
        "spaces".into(),
        J::Array(
            out.spaces
                .iter()
                .map(|(n, c)| json!({"name": n, "size": c}))
                .collect(),
        ),
    );
    coverage.insert(
        "known_findings_hit".into(),
        json!(known_hit
            .iter()
            .map(|(k, v)| (k.clone(), v.1))
            .collect::<BTreeMap<_, _>>()),
    );
    coverage.insert("notes".into(), json!(acc.notes));
    coverage.insert(
        "explanation".into(),
        json!("states = distinct inputs/states enumerated; transitions = executions of the real library compared with the reference model in lock-step (exploration runs on the real code, so every model trace is validated against the implementation)"),
    );
    for (k, v) in &out.extra {
        coverage.insert(k.clone(), v.clone());
    }
    let ev = json!({
        "property_id": prop,
        "tier": tier.name(),
        "seed": seed,
        "level": "model_checking",
        "coverage": J::Object(coverage),
        "assumptions": out.assumptions,
        "wall_s": wall,
        "violations": unknown.len(),
        "replays": replay_paths,
    });
    let evdir = format!("{}/evidence", root);
    let _ = std::fs::create_dir_all(&evdir);
    std::fs::write(
        format!("{}/{}.json", evdir, prop),
        serde_json::to_string_pretty(&ev).unwrap(),
    )
    .expect("cannot write evidence");
    // evidence/<id>.json is rewritten by every run; a copy per tier keeps the last thorough run's
    // coverage next to the last quick run's
    let tdir = format!("{}/evidence/{}", root, tier.name());
    let _ = std::fs::create_dir_all(&tdir);
    let _ = std::fs::write(format!("{}/{}.json", tdir, prop), serde_json::to_string_pretty(&ev).unwrap());
    eprintln!(
        "{} {}: states={} transitions={} nontrivial={} unspecified={} outcome_classes={} unknown_violation_classes={} known_hit={} wall={:.1}s",
        prop,
        tier.name(),
        states,
        acc.evaluations,
        acc.nontrivial,
        acc.unspecified,
        acc.outcomes.len(),
        unknown.len(),
        known_hit.len(),
        wall
    );
    if machinery_error {
        return 2;
    }
    if unknown.is_empty() {
        0
    } else {
        1
    }
}
