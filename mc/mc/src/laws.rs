//! Law checks on an implementation-produced relation matrix (independent of the model).
use crate::harness::Acc;
use serde_json::json;

/// m[i*n+j] in {-1,0,1}.  Checks reflexivity, antisymmetry and — for ALL triples, in O(n^2) —
/// transitivity via the ranking criterion: with r_i = #{j : m[i][j] > 0}, m is a total preorder
/// iff m[i][j] == sign(r_i - r_j) for all i, j.
pub fn check_total_preorder(m: &[i8], n: usize, acc: &mut Acc, tag: &str, name: &dyn Fn(usize) -> String) {
    for i in 0..n {
        if m[i * n + i] != 0 {
            acc.vio(&format!("{}:not-reflexive", tag), || json!({"a": name(i)}));
        }
    }
    for i in 0..n {
        for j in 0..n {
            if m[i * n + j] != -m[j * n + i] {
                acc.vio(&format!("{}:not-antisymmetric", tag), || json!({"a": name(i), "b": name(j), "ab": m[i * n + j], "ba": m[j * n + i]}));
            }
        }
    }
    let r: Vec<usize> = (0..n).map(|i| (0..n).filter(|j| m[i * n + j] > 0).count()).collect();
    for i in 0..n {
        for j in 0..n {
            let s = (r[i] as i64 - r[j] as i64).signum() as i8;
            if m[i * n + j] != s {
                // extract a violating triple
                let mut triple = None;
                'outer: for k in 0..n {
                    let (ab, bc, ac) = (m[i * n + j], m[j * n + k], m[i * n + k]);
                    // transitivity of <=: a<=b, b<=c => a<=c ; and of ==
                    if ab <= 0 && bc <= 0 && ac > 0 || ab >= 0 && bc >= 0 && ac < 0 || (ab == 0 && bc != ac) {
                        triple = Some((i, j, k));
                        break 'outer;
                    }
                    let (ba, ak, bk) = (m[j * n + i], m[i * n + k], m[j * n + k]);
                    if ba <= 0 && ak <= 0 && bk > 0 || ba >= 0 && ak >= 0 && bk < 0 {
                        triple = Some((j, i, k));
                        break 'outer;
                    }
                }
                acc.vio(&format!("{}:not-transitive", tag), || match triple {
                    Some((a, b, c)) => json!({"a": name(a), "b": name(b), "c": name(c), "ab": m[a * n + b], "bc": m[b * n + c], "ac": m[a * n + c]}),
                    None => json!({"a": name(i), "b": name(j), "note": "rank criterion failed"}),
                });
            }
        }
    }
}
