//! C15 — selection modes and path predicates are mutually consistent (relational oracle).
use crate::checks::c08::{path_sets, select, split};
use crate::harness::*;
use jsonb::jsonpath::{JsonPath, Mode, Selector};
use refmodel::jpath::{print_path, JPath};
use refmodel::layout::{enc, hex, strict_dec};
#[allow(unused_imports)]
use refmodel::ops;
use refmodel::RVal;
use serde_json::json;

type Conv = fn(&[u8], JsonPath<'static>, &mut Vec<u8>, &mut Vec<u64>) -> Result<(), jsonb::Error>;

fn conv_call(f: Conv, doc: &[u8], p: &JsonPath<'static>) -> Result<(Result<(), String>, Vec<u8>, Vec<u64>), PanicInfo> {
    let mut d = vec![];
    let mut o = vec![];
    let r = guard(|| f(doc, p.clone(), &mut d, &mut o))?;
    Ok((r.map_err(|e| format!("{:?}", e)), d, o))
}

pub fn judge(path: &JPath, ip: &JsonPath<'static>, doc: &RVal, b: &[u8], acc: &mut Acc) {
    acc.eval();
    let ctx = || json!({"path": print_path(path), "doc": format!("{:?}", doc), "doc_hex": hex(b)});
    let mut res = vec![];
    for m in [Mode::All, Mode::First, Mode::Array, Mode::Mixed] {
        match select(ip, m, b) {
            Ok(s) => res.push(s),
            Err(p) => {
                acc.vio(&format!("select:{}", panic_class(&p)), ctx);
                return;
            }
        }
    }
    let (all, first, array, mixed) = (&res[0], &res[1], &res[2], &res[3]);
    // the same four calls into a buffer that already holds an earlier result: "the offsets reported
    // alongside the data delimit the returned items" must hold there too
    for (k, m) in [Mode::All, Mode::First, Mode::Array, Mode::Mixed].into_iter().enumerate() {
        let sel = Selector::new(ip.clone(), m);
        let mut data = vec![0xEE, 0x80, 0x00];
        let mut offs = vec![3u64];
        match guard(|| sel.select(b, &mut data, &mut offs)) {
            Err(p) => acc.vio(&format!("select-into-used-buffer:{}", panic_class(&p)), ctx),
            Ok(r) => {
                if r.is_ok() == res[k].res.is_ok() && r.is_ok() {
                    let mut want = vec![0xEE, 0x80, 0x00];
                    want.extend_from_slice(&res[k].data);
                    let want_o: Vec<u64> = std::iter::once(3u64).chain(res[k].offsets.iter().map(|x| x + 3)).collect();
                    if data != want || offs != want_o {
                        acc.vio("select-into-used-buffer:items-or-offsets-differ-from-fresh-buffer-result", || json!({"ctx": ctx(), "mode": k, "data": hex(&data), "offsets": offs, "fresh_data": hex(&res[k].data), "fresh_offsets": res[k].offsets}));
                    }
                }
            }
        }
    }
    let ex = guard(|| Selector::new(ip.clone(), Mode::Mixed).exists(b));
    let pm = guard(|| Selector::new(ip.clone(), Mode::First).predicate_match(b));
    let (ex, pm) = match (ex, pm) {
        (Ok(e), Ok(p)) => (e, p),
        _ => {
            acc.vio("exists/predicate_match:panic", ctx);
            return;
        }
    };
    if all.res.is_err() {
        // a path the evaluator cannot handle (arithmetic): the property relates the modes only
        // for paths that evaluate
        acc.outcome("all-mode-error (not judged)");
        acc.unspecified += 1;
        return;
    }
    if first.res.is_err() || array.res.is_err() || mixed.res.is_err() || ex.is_err() {
        acc.vio("modes:error-in-some-mode-only", ctx);
        return;
    }
    let ex = ex.unwrap();
    // convenience functions
    let conv: [(&str, Conv, &crate::checks::c08::Sel); 3] = [("get_by_path", jsonb::get_by_path, mixed), ("get_by_path_first", jsonb::get_by_path_first, first), ("get_by_path_array", jsonb::get_by_path_array, array)];
    for (name, f, want) in conv {
        match conv_call(f, b, ip) {
            Err(p) => acc.vio(&format!("{}:{}", name, panic_class(&p)), ctx),
            Ok((r, d, o)) => {
                if r.is_err() || d != want.data || o != want.offsets {
                    acc.vio(&format!("{}:differs-from-selector-with-its-mode", name), || json!({"ctx": ctx(), "data": hex(&d), "offsets": o, "selector_data": hex(&want.data), "selector_offsets": want.offsets}));
                }
            }
        }
    }
    match guard(|| jsonb::path_exists(b, ip.clone())) {
        Ok(Ok(x)) if x == ex => {}
        other => acc.vio("path_exists:differs-from-Selector::exists", || json!({"ctx": ctx(), "path_exists": format!("{:?}", other), "exists": ex})),
    }
    if path.is_predicate() {
        acc.outcome("predicate");
        acc.nontrivial += 1;
        let pmv = match (&pm, guard(|| jsonb::path_match(b, ip.clone()))) {
            (Ok(a), Ok(Ok(c))) if *a == c => *a,
            (a, c) => {
                acc.vio("path_match:differs-from-Selector::predicate_match", || json!({"ctx": ctx(), "predicate_match": format!("{:?}", a), "path_match": format!("{:?}", c)}));
                return;
            }
        };
        let want = enc(&RVal::Bool(pmv));
        for (name, s) in [("All", all), ("First", first), ("Array", array), ("Mixed", mixed)] {
            if s.data != want {
                acc.vio("predicate:mode-result-is-not-the-path_match-boolean", || json!({"ctx": ctx(), "mode": name, "data": hex(&s.data), "path_match": pmv}));
            }
        }
        if !ex {
            acc.vio("predicate:exists-is-false", ctx);
        }
        return;
    }
    let Some(items) = split(&all.data, &all.offsets) else {
        acc.vio("all:offsets-do-not-delimit-items", || json!({"ctx": ctx(), "data": hex(&all.data), "offsets": all.offsets}));
        return;
    };
    for it in &items {
        if let Err(why) = strict_dec(it) {
            acc.vio("all:item-not-canonical", || json!({"ctx": ctx(), "item": hex(it), "why": why}));
        }
    }
    acc.outcome(match items.len() { 0 => "items-0", 1 => "items-1", _ => "items-2+" });
    if items.len() >= 2 {
        acc.nontrivial += 1;
    }
    // First
    let want_first: (Vec<u8>, Vec<u64>) = match items.first() {
        Some(x) => (x.clone(), vec![x.len() as u64]),
        None => (vec![], vec![]),
    };
    if (first.data.clone(), first.offsets.clone()) != want_first {
        acc.vio("first:not-first-item-of-all", || json!({"ctx": ctx(), "first": hex(&first.data), "first_offsets": first.offsets, "all": hex(&all.data), "all_offsets": all.offsets}));
    }
    // Array
    let arr_ok = match jsonb::array_values(&array.data) {
        Some(vals) => vals == items && array.offsets == vec![array.data.len() as u64] && strict_dec(&array.data).is_ok(),
        None => false,
    };
    if !arr_ok {
        acc.vio("array:not-one-array-of-the-all-items", || json!({"ctx": ctx(), "array": hex(&array.data), "array_offsets": array.offsets, "all": hex(&all.data), "all_offsets": all.offsets}));
    }
    // Mixed
    let want_mixed = if items.len() >= 2 { array } else { all };
    if mixed.data != want_mixed.data || mixed.offsets != want_mixed.offsets {
        acc.vio("mixed:not-array-when>=2-else-all", || json!({"ctx": ctx(), "n_items": items.len(), "mixed": hex(&mixed.data), "mixed_offsets": mixed.offsets}));
    }
    if ex != !items.is_empty() {
        acc.vio("exists:not-iff-all-mode-nonempty", || json!({"ctx": ctx(), "exists": ex, "n_items": items.len()}));
    }
    acc.sample(|| json!({"path": print_path(path), "doc": format!("{:?}", doc), "all_items": items.iter().map(|x| hex(x)).collect::<Vec<_>>()}));
}

pub fn spaces(tier: Tier) -> Vec<Space<'static>> {
    let mut sp: Vec<Space> = vec![];
    {
        let sz = std::sync::Arc::new(crate::checks::scale::sizes_heavy(tier));
        sp.push(Space::new("size sweep: every N up to the limit x 4 families x 13 paths x 4 modes", sz.len() as u64, move |i, acc| crate::checks::scale::sized_paths(sz[i as usize], acc, true)));
    }
    // the convenience functions also accept JSON text: existence / selection on a text (plain and
    // fully \\u-escaped spelling, 1 KiB and more) must relate to all-mode on its encoding the same way
    {
        let lim: u64 = if tier.thorough() { 400 } else { 130 };
        sp.push(Space::new("size sweep: text-form convenience functions vs all-mode on the encoding", (lim + 1) * 2, move |i, acc| {
            let n = (i / 2) as usize;
            let v = if i % 2 == 0 { crate::checks::scale::sized(1, n) } else { RVal::Obj((0..n).map(|k| (format!("clé{}", k), RVal::u(k as u64))).collect()) };
            let bytes = enc(&v);
            let plain = refmodel::text::print(&v);
            let mut escd = String::new();
            crate::checks::c11::escaped_text(&v, &mut escd);
            let keys = crate::checks::scale::keys_of(&v);
            for k in keys {
                use refmodel::jpath::Step;
                for mp in [JPath(vec![Step::Root, Step::Dot(k.clone())]), JPath(vec![Step::Root, Step::ObjField(k.clone())]), JPath(vec![Step::Root, Step::DotWild]), JPath(vec![Step::Root, Step::BracketWild])] {
                    let ps = print_path(&mp);
                    let ip = crate::pathconv::to_impl_path(&mp);
                    let Ok(all) = select(&ip, Mode::All, &bytes) else { continue };
                    let Ok(mixed) = select(&ip, Mode::Mixed, &bytes) else { continue };
                    for (form, t) in [("plain-text", &plain), ("escaped-text", &escd)] {
                        acc.eval();
                        acc.nontrivial += 1;
                        let r = guard(|| {
                            let e = jsonb::path_exists(t.as_bytes(), ip.clone());
                            let (mut d, mut o) = (vec![], vec![]);
                            let g = jsonb::get_by_path(t.as_bytes(), ip.clone(), &mut d, &mut o);
                            (e, g.map(|_| (d, o)))
                        });
                        match r {
                            Err(p) => acc.vio(&format!("text-form:{}", panic_class(&p)), || json!({"path": ps, "N": n, "form": form})),
                            Ok((e, g)) => {
                                if e.as_ref().ok().copied() != Some(!all.offsets.is_empty()) {
                                    acc.vio("path_exists(text):not-iff-all-mode-nonempty", || json!({"path": ps, "N": n, "form": form, "text_len": t.len(), "path_exists": format!("{:?}", e), "all_items": all.offsets.len()}));
                                }
                                match g {
                                    Ok((d, o)) if d == mixed.data && o == mixed.offsets => {}
                                    _ => acc.vio("get_by_path(text):differs-from-mixed-mode-on-the-encoding", || json!({"path": ps, "N": n, "form": form})),
                                }
                            }
                        }
                    }
                }
            }
        }));
    }
    // the three convenience functions on the TEXT of every D2 document against the selector (in their
    // mode) on its encoding, for the whole path menu (including `$` referred to from inside a filter
    // that follows member steps)
    {
        let d2 = crate::univ::d2();
        sp.push(Space::new("text-form get_by_path / _first / _array vs the selector on the encoding: D2 x path menu", d2.len() as u64, move |i, acc| {
            let v = &d2[i as usize];
            if !v.all_finite() {
                return;
            }
            let bytes = enc(v);
            let text = refmodel::text::print(v);
            for ps in crate::calls::PATH_MENU {
                let Ok(ip) = jsonb::jsonpath::parse_json_path(ps.as_bytes()) else { continue };
                for (name, mode, f) in [("get_by_path", Mode::Mixed, jsonb::get_by_path as Conv), ("get_by_path_first", Mode::First, jsonb::get_by_path_first as Conv), ("get_by_path_array", Mode::Array, jsonb::get_by_path_array as Conv)] {
                    acc.eval();
                    acc.nontrivial += 1;
                    let want = select(&ip, mode, &bytes);
                    let got = conv_call(f, text.as_bytes(), &ip);
                    match (want, got) {
                        (Ok(w), Ok((r, d, o))) => {
                            if w.res.is_ok() != r.is_ok() || (r.is_ok() && (d != w.data || o != w.offsets)) {
                                acc.vio(&format!("{}(text):differs-from-selector-on-the-encoding", name), || json!({"path": ps, "doc": text, "text_result": hex(&d), "selector_result": hex(&w.data)}));
                            }
                        }
                        _ => acc.vio(&format!("{}(text):panic", name), || json!({"path": ps, "doc": text})),
                    }
                }
            }
        }));
    }
    for ps in path_sets(tier) {
        // the relational check runs 12 evaluations per pair: use every path but thin the big sets' documents
        let n = ps.paths.len() as u64;
        let big = ps.paths.len() * ps.docs.len() > 4_000_000 && !tier.thorough();
        let (paths, docs) = (ps.paths.clone(), ps.docs.clone());
        sp.push(Space::new(&ps.name, n, move |i, acc| {
            let (p, ip) = &paths[i as usize];
            for (k, (d, b)) in docs.iter().enumerate() {
                if big && (k + i as usize) % 8 != 0 {
                    continue;
                }
                judge(p, ip, d, b, acc);
            }
            // selectors KEPT across documents (one per mode), each document placed at the same
            // address: every answer must equal the answer of a fresh selector on that document
            let kept: Vec<Selector> = [Mode::All, Mode::First, Mode::Array, Mode::Mixed].into_iter().map(|m| Selector::new(ip.clone(), m)).collect();
            for (d, b) in docs.iter().take(8).chain(docs.iter().rev().take(4)) {
                let fixed = crate::checks::c08::at_fixed_address(b);
                for (k, m) in [Mode::All, Mode::First, Mode::Array, Mode::Mixed].into_iter().enumerate() {
                    acc.eval();
                    let (mut data, mut offs) = (vec![], vec![]);
                    let r = guard(|| kept[k].select(fixed, &mut data, &mut offs));
                    let fresh = select(ip, m, b);
                    match (r, fresh) {
                        (Ok(r), Ok(f)) => {
                            if r.is_ok() != f.res.is_ok() || (r.is_ok() && (data != f.data || offs != f.offsets)) {
                                acc.vio("kept-selector:answer-differs-from-a-fresh-selector", || json!({"path": print_path(p), "doc": format!("{:?}", d), "mode": k, "kept_data": hex(&data), "fresh_data": hex(&f.data)}));
                            }
                        }
                        _ => acc.vio("kept-selector:panic", || json!({"path": print_path(p), "doc": format!("{:?}", d), "mode": k})),
                    }
                }
                acc.eval();
                let e1 = guard(|| kept[3].exists(fixed));
                let e2 = guard(|| Selector::new(ip.clone(), Mode::Mixed).exists(b));
                if format!("{:?}", e1.as_ref().map_err(|p| panic_class(p))) != format!("{:?}", e2.as_ref().map_err(|p| panic_class(p))) {
                    acc.vio("kept-selector:exists-differs-from-a-fresh-selector", || json!({"path": print_path(p), "doc": format!("{:?}", d)}));
                }
            }
        }));
    }
    sp
}

pub fn meta(_tier: Tier) -> (String, serde_json::Value, Vec<String>) {
    (
        "the C08 program/input product (every path of the enumerations x documents) evaluated through Selector::select in all four modes, Selector::exists / predicate_match and the five convenience functions: First = first item of All or nothing; Array = one canonical array whose array_values are exactly the All items; Mixed = Array when >=2 items else All; exists iff All non-empty; offsets strictly increasing, ending at data.len(), each slice canonical; convenience functions byte-identical to the selector with their mode; predicate paths: every mode returns the path_match boolean and exists is true. Purely relational (implementation against itself). Non-trivial = >=2 items selected, or a predicate path.".into(),
        json!({"modes": 4, "entry_points": 11, "quick_thinning": "for path sets whose product exceeds 4M pairs the quick tier visits the documents with (doc_index + path_index) % 8 == 0 (a fixed, complete residue class, not a sample)"}),
        vec![],
    )
}
