//! C04 — compare is a total order matching value equality and the documented ranking.
use crate::harness::*;
use crate::univ;
use refmodel::layout::{enc, hex};
use refmodel::ops::ref_cmp;
use refmodel::RVal;
use serde_json::json;
use std::cmp::Ordering;
use std::sync::Arc;

pub struct Docs {
    pub vals: Vec<RVal>,
    pub bytes: Vec<Vec<u8>>,
    pub texts: Vec<Option<String>>,
}

pub fn docs(vals: Vec<RVal>) -> Arc<Docs> {
    let bytes = vals.iter().map(enc).collect();
    let texts = vals
        .iter()
        .map(|v| if v.all_finite() { Some(refmodel::text::print(v)) } else { None })
        .collect();
    Arc::new(Docs { vals, bytes, texts })
}

fn o2i(o: Ordering) -> i8 {
    match o {
        Ordering::Less => -1,
        Ordering::Equal => 0,
        Ordering::Greater => 1,
    }
}

pub fn spaces(tier: Tier) -> Vec<Space<'static>> {
    let base: &[RVal] = if tier.thorough() { univ::p5() } else { univ::d2() };
    let d = docs({
        let mut u = univ::relation_universe(base, true);
        u.extend(refmodel::gen::strkey_docs());
        u.extend(refmodel::gen::tagv_relation_docs());
        let mut seen = std::collections::HashSet::new();
        u.retain(|x| seen.insert(x.clone()));
        u
    });
    let n = d.vals.len();
    let mut sp: Vec<Space> = vec![];
    let d1 = d.clone();
    sp.push(Space::new("all-pairs", n as u64, move |i, acc| {
        let i = i as usize;
        let d = &d1;
        for j in 0..n {
            acc.eval();
            let exp = ref_cmp(&d.vals[i], &d.vals[j]);
            match guard(|| jsonb::compare(&d.bytes[i], &d.bytes[j])) {
                Err(p) => acc.vio(&format!("compare:{}", panic_class(&p)), || json!({"a": format!("{:?}", d.vals[i]), "b": format!("{:?}", d.vals[j])})),
                Ok(Err(e)) => acc.vio("compare:error-on-valid-documents", || json!({"a": format!("{:?}", d.vals[i]), "b": format!("{:?}", d.vals[j]), "err": format!("{:?}", e)})),
                Ok(Ok(o)) => {
                    acc.outcome(match o { Ordering::Less => "lt", Ordering::Equal => "eq", Ordering::Greater => "gt" });
                    if o != exp {
                        acc.vio("compare:differs-from-documented-order", || json!({"a": format!("{:?}", d.vals[i]), "b": format!("{:?}", d.vals[j]), "a_hex": hex(&d.bytes[i]), "b_hex": hex(&d.bytes[j]), "expected": format!("{:?}", exp), "observed": format!("{:?}", o)}));
                    }
                    if (o == Ordering::Equal) != d.vals[i].json_eq(&d.vals[j]) {
                        acc.vio("compare:Equal-not-iff-same-JSON-value", || json!({"a": format!("{:?}", d.vals[i]), "b": format!("{:?}", d.vals[j]), "observed": format!("{:?}", o)}));
                    }
                }
            }
            if i != j && d.vals[i].depth() + d.vals[j].depth() >= 2 {
                acc.nontrivial += 1;
            }
        }
        acc.sample(|| json!({"a": format!("{:?}", d.vals[i]), "b": format!("{:?}", d.vals[(i * 7 + 3) % n]), "a_hex": hex(&d.bytes[i])}));
    }));
    let d2 = d.clone();
    sp.push(Space::new("laws-on-own-matrix", 1, move |_, acc| {
        use rayon::prelude::*;
        let d = &d2;
        let rows: Vec<Vec<i8>> = (0..n)
            .into_par_iter()
            .map(|i| (0..n).map(|j| match guard(|| jsonb::compare(&d.bytes[i], &d.bytes[j])) { Ok(Ok(o)) => o2i(o), _ => 2 }).collect())
            .collect();
        let m: Vec<i8> = rows.into_iter().flatten().collect();
        if m.iter().any(|x| *x == 2) {
            acc.vio("compare:error-or-panic-on-valid-documents", || json!({"note": "matrix has error/panic cells"}));
            return;
        }
        acc.evals((n * n) as u64);
        crate::laws::check_total_preorder(&m, n, acc, "compare-laws", &|i| format!("{:?}", d.vals[i]));
    }));
    {
        let sz = std::sync::Arc::new(crate::checks::scale::sizes(tier));
        sp.push(Space::new("size sweep: every N up to the limit, 6 related documents, all pairs", sz.len() as u64, move |i, acc| crate::checks::scale::sized_relations(sz[i as usize], acc, 0)));
        sp.push(Space::new("depth sweep: every depth 1..=300, 21 chains, all pairs", 300, |i, acc| crate::checks::scale::depth_relations(i as usize + 1, acc, 0)));
    }
    let nv = crate::checks::scale::variants().len() as u64;
    sp.push(Space::new("scale-pairs (big documents and near-copies)", nv, |i, acc| crate::checks::scale::relation_row(i as usize, acc, 0)));
    // strings: every ordered pair of a string alphabet built for prefix / terminator confusions, in
    // all four text/binary configurations
    {
        let mut strs: Vec<String> = univ::sstr().clone();
        for s in ["a b", "a!", "a ", "a\u{1f}", "foo", "foo bar", "foo!", "a#", "a\"b", "ab ", " a", "a/b", "a/", "</script>"] {
            strs.push(s.to_string());
        }
        let docs2 = docs(strs.iter().flat_map(|s| [RVal::Str(s.clone()), RVal::Arr(vec![RVal::Str(s.clone())])]).collect());
        let m = docs2.vals.len();
        sp.push(Space::new("string-pairs x 4 text/binary configurations", m as u64, move |i, acc| {
            let d = &docs2;
            let i = i as usize;
            let ti = d.texts[i].as_ref().unwrap().as_bytes();
            for j in 0..m {
                let tj = d.texts[j].as_ref().unwrap().as_bytes();
                let exp = ref_cmp(&d.vals[i], &d.vals[j]);
                for (cfg, a, b) in [("bin,bin", &d.bytes[i][..], &d.bytes[j][..]), ("text,bin", ti, &d.bytes[j][..]), ("bin,text", &d.bytes[i][..], tj), ("text,text", ti, tj)] {
                    acc.eval();
                    acc.nontrivial += 1;
                    match guard(|| jsonb::compare(a, b)) {
                        Ok(Ok(o)) if o == exp => {}
                        other => acc.vio("compare-strings:differs-from-documented-order", || json!({"cfg": cfg, "a": d.texts[i], "b": d.texts[j], "expected": format!("{:?}", exp), "observed": format!("{:?}", other)})),
                    }
                }
                // the same pair with the text side(s) in two other spellings (all \\uXXXX; short escapes incl. \\/)
                for style in [1u8, 2, 3] {
                    let (si, sj) = (refmodel::text::print_styled(&d.vals[i], style), refmodel::text::print_styled(&d.vals[j], style));
                    for (cfg, a, b) in [("styled-text,bin", si.as_bytes(), &d.bytes[j][..]), ("bin,styled-text", &d.bytes[i][..], sj.as_bytes()), ("styled-text,text", si.as_bytes(), tj)] {
                        acc.eval();
                        match guard(|| jsonb::compare(a, b)) {
                            Ok(Ok(o)) if o == exp => {}
                            other => acc.vio("compare-strings:differs-from-documented-order:escaped-spelling", || json!({"cfg": cfg, "style": style, "a": si, "b": sj, "expected": format!("{:?}", exp), "observed": format!("{:?}", other)})),
                        }
                    }
                }
            }
        }));
    }
    // numbers written in every spelling of the C02 list as TEXT operands, against each other and
    // against the encoded value: compare must order them by the value the text denotes
    {
        let sp_all = crate::checks::c02::number_spellings();
        let items: Arc<Vec<(String, RVal, Vec<u8>)>> = Arc::new(
            sp_all
                .into_iter()
                .filter_map(|s| match refmodel::text::relaxed_json(s.as_bytes()) {
                    Ok(p) if !p.value_unspecified && p.val.all_finite() && matches!(p.val, RVal::Num(_)) => { let b = enc(&p.val); Some((s, p.val, b)) }
                    _ => None,
                })
                .collect(),
        );
        let m = items.len();
        sp.push(Space::new("number spellings as text operands (text,text / text,binary / binary,text; bare and in an array)", m as u64, move |i, acc| {
            let (si, vi, bi) = &items[i as usize];
            for (sj, vj, bj) in items.iter() {
                let exp = ref_cmp(vi, vj);
                let (ai, aj) = (format!("[{}]", si), format!("[{}]", sj));
                let (abi, abj) = (enc(&RVal::Arr(vec![vi.clone()])), enc(&RVal::Arr(vec![vj.clone()])));
                for (cfg, a, b) in [("text,text", si.as_bytes(), sj.as_bytes()), ("text,bin", si.as_bytes(), &bj[..]), ("bin,text", &bi[..], sj.as_bytes()), ("[text],[text]", ai.as_bytes(), aj.as_bytes()), ("[text],[bin]", ai.as_bytes(), &abj[..]), ("[bin],[text]", &abi[..], aj.as_bytes())] {
                    acc.eval();
                    acc.nontrivial += 1;
                    match guard(|| jsonb::compare(a, b)) {
                        Ok(Ok(o)) if o == exp => {}
                        other => acc.vio("compare-number-spellings:differs-from-the-order-of-the-denoted-values", || json!({"cfg": cfg, "a": si, "b": sj, "expected": format!("{:?}", exp), "observed": format!("{:?}", other.map_err(|p| panic_class(&p)))})),
                    }
                }
            }
        }));
    }
    // text operands that repeat a member name (the last value is the member's value), against each
    // other and against the encoding of what they denote
    {
        let raw: Vec<&str> = vec![
            "{\"a\":1,\"a\":2}", "{\"a\":2,\"a\":1}", "{\"a\":2}", "{\"a\":1}", "{\"b\":0,\"a\":1,\"a\":3}", "{\"a\":3,\"b\":0}", "[{\"a\":1,\"a\":2}]", "[{\"a\":2}]",
            "{\"a\":{\"k\":1,\"k\":[]},\"a\":{\"k\":[],\"k\":1}}", "{\"a\":{\"k\":1}}", "{\"\":null,\"\":true}", "{\"\":true}", "{\"a\":1,\"b\":2,\"a\":1}", "{\"a\":1,\"b\":2}",
        ];
        let items: Arc<Vec<(String, RVal, Vec<u8>)>> = Arc::new(raw.into_iter().map(|s| { let v = refmodel::text::relaxed_json(s.as_bytes()).expect("model parses").val; let b = enc(&v); (s.to_string(), v, b) }).collect());
        let m = items.len();
        sp.push(Space::new("text operands with repeated member names", m as u64, move |i, acc| {
            let (si, vi, bi) = &items[i as usize];
            for (sj, vj, bj) in items.iter() {
                let exp = ref_cmp(vi, vj);
                for (cfg, a, b) in [("text,text", si.as_bytes(), sj.as_bytes()), ("text,bin", si.as_bytes(), &bj[..]), ("bin,text", &bi[..], sj.as_bytes())] {
                    acc.eval();
                    acc.nontrivial += 1;
                    match guard(|| jsonb::compare(a, b)) {
                        Ok(Ok(o)) if o == exp => {}
                        other => acc.vio("compare-text:repeated-member-names:differs-from-the-order-of-the-denoted-values", || json!({"cfg": cfg, "a": si, "b": sj, "expected": format!("{:?}", exp), "observed": format!("{:?}", other.map_err(|p| panic_class(&p)))})),
                    }
                }
            }
        }));
    }
    // text / binary configurations on a subset
    let sub: Vec<usize> = (0..n).filter(|i| d.texts[*i].is_some()).step_by((n / if tier.thorough() { 900 } else { 400 }).max(1)).collect();
    let m = sub.len();
    let d3 = d.clone();
    sp.push(Space::new("text-binary-configs", m as u64, move |k, acc| {
        let d = &d3;
        let i = sub[k as usize];
        let ti = d.texts[i].as_ref().unwrap().as_bytes();
        for &j in &sub {
            let tj = d.texts[j].as_ref().unwrap().as_bytes();
            let bb = jsonb::compare(&d.bytes[i], &d.bytes[j]);
            for (cfg, a, b) in [("text,bin", ti, &d.bytes[j][..]), ("bin,text", &d.bytes[i][..], tj), ("text,text", ti, tj)] {
                acc.eval();
                acc.nontrivial += 1;
                match guard(|| jsonb::compare(a, b)) {
                    Err(p) => acc.vio(&format!("compare-text:{}", panic_class(&p)), || json!({"cfg": cfg, "a": d.texts[i], "b": d.texts[j]})),
                    Ok(r) => {
                        if r != bb {
                            acc.vio("compare-text:differs-from-all-binary", || json!({"cfg": cfg, "a": d.texts[i], "b": d.texts[j], "binary": format!("{:?}", bb), "observed": format!("{:?}", r)}));
                        }
                    }
                }
            }
        }
    }));
    sp
}

pub fn meta(tier: Tier) -> (String, serde_json::Value, Vec<String>) {
    (
        "full relation: every ordered pair of the relation universe (base universe + number-encoding variants at depth 0/1/2 + prefix-sharing containers) is compared by the implementation and by the model's documented order; the total-preorder laws are checked for ALL triples on the implementation's own matrix (ranking criterion); all four text/binary configurations on a subset. Non-trivial = distinct pair with nesting.".into(),
        json!({"base": if tier.thorough() {"P5 (5,156)"} else {"D2 (2,149)"}, "pairs": "all ordered pairs", "triples": "all (ranking criterion)"}),
        vec![],
    )
}
