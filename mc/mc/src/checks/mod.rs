pub mod c01;
pub mod c18;
pub mod c04;
pub mod c12;
pub mod c13;
pub mod c14;
pub mod c19;
