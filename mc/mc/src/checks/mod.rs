pub mod c01;
