pub mod c01;
pub mod c18;
pub mod c04;
pub mod c12;
