//! C18 — numbers keep their exact value through the codec and are ordered by that value.
use crate::conv::*;
use crate::harness::*;
use crate::univ;
use jsonb::Number;
use refmodel::layout::{enc, enc_num, hex};
use refmodel::val::{is_nearest_double, num_cmp};
use refmodel::{RNum, RVal};
use serde_json::json;
use std::cmp::Ordering;

fn codec_one(n: RNum, acc: &mut Acc, via_doc: bool) {
    let num = to_num(&n);
    let expect = enc_num(&n);
    let mut buf = Vec::with_capacity(9);
    let r = guard(|| num.compact_encode(&mut buf));
    match r {
        Err(p) => {
            acc.vio(&format!("codec:encode:{}", panic_class(&p)), || json!({"number": format!("{:?}", n)}));
            return;
        }
        Ok(Err(e)) => {
            acc.vio("codec:encode-error", || json!({"number": format!("{:?}", n), "err": format!("{:?}", e)}));
            return;
        }
        Ok(Ok(len)) => {
            if len != buf.len() || len != n.shortest_width() {
                acc.vio("codec:width-not-shortest", || json!({"number": format!("{:?}", n), "reported": len, "written": buf.len(), "shortest": n.shortest_width()}));
            }
        }
    }
    if buf != expect {
        acc.vio("codec:bytes-differ-from-model", || json!({"number": format!("{:?}", n), "expected": hex(&expect), "observed": hex(&buf)}));
    }
    match guard(|| Number::decode(&expect)) {
        Err(p) => acc.vio(&format!("codec:decode:{}", panic_class(&p)), || json!({"bytes": hex(&expect)})),
        Ok(Err(e)) => acc.vio("codec:decode-rejects-valid", || json!({"bytes": hex(&expect), "err": format!("{:?}", e)})),
        Ok(Ok(back)) => {
            let b = from_num_raw(&back);
            if b != n {
                acc.vio("codec:roundtrip-value-differs", || json!({"number": format!("{:?}", n), "decoded": format!("{:?}", back)}));
            }
        }
    }
    views_one(n, &num, acc);
    if via_doc {
        let doc = enc(&RVal::Num(n));
        let r = guard(|| (jsonb::as_number(&doc), jsonb::as_i64(&doc), jsonb::as_u64(&doc), jsonb::as_f64(&doc), jsonb::is_number(&doc), jsonb::is_i64(&doc), jsonb::is_u64(&doc), jsonb::is_f64(&doc)));
        match r {
            Err(p) => acc.vio(&format!("doc-cast:{}", panic_class(&p)), || json!({"doc": hex(&doc)})),
            Ok((an, ai, au, af, isn, isi, isu, isf)) => {
                let ok = an.as_ref().map(from_num_raw) == Some(n)
                    && n.view_i64_admissible(ai)
                    && n.view_u64_admissible(au)
                    && (ai, au) == (num.as_i64(), num.as_u64())
                    && af.map(|f| f.to_bits()) == num.as_f64().map(|f| f.to_bits())
                    && isn
                    && isi == ai.is_some()
                    && isu == au.is_some()
                    && isf;
                if !ok {
                    acc.vio("doc-cast:differs-from-number-views", || json!({"number": format!("{:?}", n), "as_number": format!("{:?}", an), "as_i64": ai, "as_u64": au, "as_f64": af}));
                }
            }
        }
    }
}

fn views_one(n: RNum, num: &Number, acc: &mut Acc) {
    let (vi, vu, vf) = (num.as_i64(), num.as_u64(), num.as_f64());
    // the same views asked of the value tree
    {
        let t = jsonb::Value::Number(num.clone());
        let tv = (t.as_i64(), t.as_u64(), t.as_f64().map(|f| f.to_bits()), t.is_i64(), t.is_u64(), t.is_f64(), t.is_number());
        if tv != (vi, vu, vf.map(|f| f.to_bits()), vi.is_some(), vu.is_some(), vf.is_some(), true) {
            acc.vio("view:Value-accessors-differ-from-Number-views", || json!({"number": format!("{:?}", n), "value_views": format!("{:?}", tv)}));
        }
    }
    if !n.view_i64_admissible(vi) {
        acc.vio("view:as_i64-not-exact-or-absent", || json!({"number": format!("{:?}", n), "as_i64": vi}));
    }
    if !n.view_u64_admissible(vu) {
        acc.vio("view:as_u64-not-exact-or-absent", || json!({"number": format!("{:?}", n), "as_u64": vu}));
    }
    match (n.as_int(), vf) {
        (Some(i), Some(f)) => {
            if !is_nearest_double(i, f) {
                acc.vio("view:as_f64-not-nearest-double", || json!({"number": format!("{:?}", n), "as_f64": f}));
            }
        }
        (None, Some(f)) => {
            if RNum::f(f) != n {
                acc.vio("view:as_f64-changes-float", || json!({"number": format!("{:?}", n), "as_f64": f}));
            }
        }
        (_, None) => acc.vio("view:as_f64-absent", || json!({"number": format!("{:?}", n)})),
    }
}

/// lenient structural reading of number bytes: None = malformed
fn lenient(p: &[u8]) -> Option<(Option<RNum>, bool)> {
    // returns Some((value if specified, shortest?))
    if p.is_empty() {
        return None;
    }
    let rest = &p[1..];
    match p[0] {
        0x00 | 0x10 | 0x20 | 0x30 => {
            if rest.is_empty() {
                let n = match p[0] {
                    0x00 => RNum::U(0),
                    0x10 => RNum::f(f64::NAN),
                    0x20 => RNum::f(f64::INFINITY),
                    _ => RNum::f(f64::NEG_INFINITY),
                };
                Some((Some(n), true))
            } else {
                Some((None, false)) // extra payload after a payload-less tag: unspecified
            }
        }
        0x40 => {
            let v = match rest.len() {
                1 => rest[0] as i8 as i64,
                2 => i16::from_be_bytes(rest.try_into().unwrap()) as i64,
                4 => i32::from_be_bytes(rest.try_into().unwrap()) as i64,
                8 => i64::from_be_bytes(rest.try_into().unwrap()),
                _ => return None,
            };
            let n = RNum::I(v);
            Some((Some(n), v != 0 && n.shortest_width() == p.len()))
        }
        0x50 => {
            let v = match rest.len() {
                1 => rest[0] as u64,
                2 => u16::from_be_bytes(rest.try_into().unwrap()) as u64,
                4 => u32::from_be_bytes(rest.try_into().unwrap()) as u64,
                8 => u64::from_be_bytes(rest.try_into().unwrap()),
                _ => return None,
            };
            let n = RNum::U(v);
            Some((Some(n), v != 0 && n.shortest_width() == p.len()))
        }
        0x60 => {
            if rest.len() != 8 {
                return None;
            }
            let f = f64::from_be_bytes(rest.try_into().unwrap());
            Some((Some(RNum::f(f)), f.is_finite()))
        }
        _ => None,
    }
}

/// the same number payload inside a document (scalar root): the document decoders must reject what
/// `Number::decode` rejects and read what it reads
fn malformed_via_document(b: &[u8], acc: &mut Acc) {
    let mut doc = vec![0x20, 0, 0, 0];
    doc.extend_from_slice(&(0x2000_0000u32 | b.len() as u32).to_be_bytes());
    doc.extend_from_slice(b);
    let direct = guard(|| Number::decode(b).ok().map(|x| from_num_raw(&x)));
    for (name, r) in [("parse_jsonb", guard(|| jsonb::parse_jsonb(&doc).ok().map(|v| from_value_raw(&v)))), ("from_slice", guard(|| jsonb::from_slice(&doc).ok().map(|v| from_value_raw(&v))))] {
        acc.eval();
        match (&direct, r) {
            (Ok(d), Ok(v)) => {
                let same = match (d, &v) {
                    (None, None) => true,
                    (Some(x), Some(RVal::Num(y))) => x == y,
                    // from_slice may still read the bytes as JSON text when they are not JSONB
                    (None, Some(_)) => name == "from_slice" && refmodel::text::relaxed_json(&doc).is_ok(),
                    _ => false,
                };
                if !same {
                    acc.vio(&format!("malformed:{}-disagrees-with-Number::decode", name), || json!({"payload": hex(b), "Number::decode": format!("{:?}", d), "document": format!("{:?}", v)}));
                }
            }
            _ => acc.vio(&format!("malformed:{}:panic", name), || json!({"payload": hex(b)})),
        }
    }
}

fn malformed_one(p: &[u8], acc: &mut Acc) {
    acc.eval();
    let m = lenient(p);
    match guard(|| Number::decode(p)) {
        Err(pi) => {
            acc.outcome("panic");
            acc.vio(&format!("malformed:{}", panic_class(&pi)), || json!({"bytes": hex(p)}))
        }
        Ok(r) => match (m, r) {
            (None, Ok(n)) => {
                acc.outcome("malformed-accepted");
                acc.vio("malformed:accepted", || json!({"bytes": hex(p), "decoded": format!("{:?}", n)}))
            }
            (None, Err(_)) => acc.outcome("malformed-rejected"),
            (Some((Some(v), true)), Ok(n)) => {
                acc.nontrivial += 1;
                acc.outcome("wellformed-ok");
                if from_num_raw(&n) != v {
                    acc.vio("malformed:wellformed-decodes-to-other-value", || json!({"bytes": hex(p), "decoded": format!("{:?}", n), "expected": format!("{:?}", v)}))
                }
            }
            (Some((Some(_), true)), Err(e)) => acc.vio("malformed:wellformed-rejected", || json!({"bytes": hex(p), "err": format!("{:?}", e)})),
            (Some((Some(v), false)), Ok(n)) => {
                acc.outcome("nonshortest-ok");
                // value equality by mathematical value (Int64(0)/UInt64(0) etc.)
                if num_cmp(&from_num_raw(&n), &v) != Ordering::Equal {
                    acc.vio("malformed:nonshortest-decodes-to-other-value", || json!({"bytes": hex(p), "decoded": format!("{:?}", n), "expected": format!("{:?}", v)}))
                }
            }
            (Some(_), _) => {
                acc.unspecified += 1;
                acc.outcome("unspecified");
            }
        },
    }
}

pub fn spaces(tier: Tier) -> Vec<Space<'static>> {
    let mut sp: Vec<Space> = vec![];
    sp.push(Space::new("codec-u16", 1 << 16, |i, acc| {
        acc.eval();
        acc.nontrivial += 1;
        codec_one(RNum::U(i), acc, true)
    }));
    sp.push(Space::new("codec-i16", 1 << 16, |i, acc| {
        acc.eval();
        acc.nontrivial += 1;
        codec_one(RNum::i(i as u16 as i16 as i64), acc, true)
    }));
    sp.push(Space::new("codec-f64-top16", 1 << 16, |i, acc| {
        acc.eval();
        acc.nontrivial += 1;
        codec_one(RNum::f(f64::from_bits(i << 48)), acc, true)
    }));
    let b64 = univ::b64_all();
    sp.push(Space::new("codec-b64", b64.len() as u64, move |i, acc| {
        acc.eval();
        acc.nontrivial += 1;
        acc.sample(|| json!({"number": format!("{:?}", b64[i as usize]), "bytes": hex(&enc_num(&b64[i as usize]))}));
        codec_one(b64[i as usize], acc, true)
    }));
    // malformed bytes: every byte string of length 0..=3
    sp.push(Space::new("malformed-len0-3", 1 + 256 + 65536 + (1 << 24), |i, acc| {
        let mut b = [0u8; 3];
        let (len, v) = if i == 0 {
            (0, 0)
        } else if i < 257 {
            (1, i - 1)
        } else if i < 257 + 65536 {
            (2, i - 257)
        } else {
            (3, i - 257 - 65536)
        };
        for k in 0..len {
            b[k] = (v >> (8 * (len - 1 - k))) as u8;
        }
        malformed_one(&b[..len], acc)
    }));
    // the same payloads as the number of a scalar document, through both document decoders
    sp.push(Space::new("malformed-len0-2 and tag x width payloads through parse_jsonb / from_slice", 1 + 256 + 65536 + 256 * 9, |i, acc| {
        if i < 1 + 256 + 65536 {
            let mut b = [0u8; 2];
            let (len, v) = if i == 0 { (0, 0) } else if i < 257 { (1, i - 1) } else { (2, i - 257) };
            for k in 0..len {
                b[k] = (v >> (8 * (len - 1 - k))) as u8;
            }
            malformed_via_document(&b[..len], acc)
        } else {
            let j = i - (1 + 256 + 65536);
            let (tag, len) = ((j / 9) as u8, (j % 9) as usize + 2);
            let mut b = vec![0x7Fu8; len];
            b[0] = tag;
            malformed_via_document(&b, acc)
        }
    }));
    const MARK: [u8; 16] = [0x00, 0x01, 0x0F, 0x10, 0x1F, 0x20, 0x2F, 0x30, 0x40, 0x50, 0x5F, 0x60, 0x70, 0x7F, 0x80, 0xFF];
    sp.push(Space::new("malformed-len4-10", 7 * 256 * 16 * 16, |i, acc| {
        let len = 4 + (i / (256 * 256)) as usize;
        let tag = ((i / 256) % 256) as u8;
        let fill = MARK[((i / 16) % 16) as usize];
        let last = MARK[(i % 16) as usize];
        let mut b = vec![fill; len];
        b[0] = tag;
        b[len - 1] = last;
        malformed_one(&b, acc)
    }));
    // order: full relation on B64 x B64, row per index
    let n = b64.len();
    sp.push(Space::new("order-b64xb64", n as u64, move |i, acc| {
        let a = b64[i as usize];
        let na = to_num(&a);
        for (j, b) in b64.iter().enumerate() {
            acc.eval();
            let nb = to_num(b);
            let exp = num_cmp(&a, b);
            // every operand shape the crate implements the operators for: owned/owned, &/owned, owned/&
            let shapes = guard(|| {
                let (ra, rb): (&Number, &Number) = (&na, &nb);
                (
                    <&Number as PartialOrd<Number>>::partial_cmp(&ra, &nb),
                    <Number as PartialOrd<&Number>>::partial_cmp(&na, &rb),
                    <&Number as PartialEq<Number>>::eq(&ra, &nb),
                    <Number as PartialEq<&Number>>::eq(&na, &rb),
                    ra < nb, na > rb,
                )
            });
            match &shapes {
                Ok((p1, p2, e1, e2, lt, gt)) => {
                    if *p1 != Some(exp) || *p2 != Some(exp) || *e1 != (exp == Ordering::Equal) || *e2 != (exp == Ordering::Equal) || *lt != (exp == Ordering::Less) || *gt != (exp == Ordering::Greater) {
                        acc.vio("order:reference-operand-shapes-differ-from-exact-value", || json!({"a": format!("{:?}", a), "b": format!("{:?}", b), "observed": format!("{:?}", shapes), "expected": format!("{:?}", exp)}));
                    }
                }
                Err(p) => acc.vio(&format!("order:{}", panic_class(p)), || json!({"a": format!("{:?}", a), "b": format!("{:?}", b)})),
            }
            let r = guard(|| (na.cmp(&nb), na == nb, na.partial_cmp(&nb)));
            match r {
                Err(p) => acc.vio(&format!("order:{}", panic_class(&p)), || json!({"a": format!("{:?}", a), "b": format!("{:?}", b)})),
                Ok((c, e, pc)) => {
                    if c != exp {
                        acc.outcome("cmp-differs");
                        let class = if a.as_int().is_some() != b.as_int().is_some() {
                            "order:int-vs-float-cmp-differs-from-exact-value"
                        } else {
                            "order:cmp-differs-from-exact-value"
                        };
                        acc.vio(class, || json!({"a": format!("{:?}", a), "b": format!("{:?}", b), "expected": format!("{:?}", exp), "observed": format!("{:?}", c), "j": j}));
                    } else {
                        acc.outcome(match c { Ordering::Less => "lt", Ordering::Equal => "eq", Ordering::Greater => "gt" });
                    }
                    if e != (c == Ordering::Equal) || pc != Some(c) {
                        acc.vio("order:eq/partial_cmp-inconsistent-with-cmp", || json!({"a": format!("{:?}", a), "b": format!("{:?}", b)}));
                    }
                }
            }
        }
    }));
    // Int64(0) -- a zero stored in the signed class, which is what the text `-0` parses to; B64 leaves it
    // out because it shares its encoding with UInt64(0) -- against every B64 number, in both operand orders
    sp.push(Space::new("order: Int64(0) (the parse of -0) against every B64 number, both operand orders", n as u64, move |j, acc| {
        let a = RNum::I(0);
        let b = b64[j as usize];
        let (na, nb) = (Number::Int64(0), to_num(&b));
        acc.eval();
        acc.nontrivial += 1;
        let exp = num_cmp(&a, &b);
        match guard(|| (na.cmp(&nb), nb.cmp(&na), na == nb, nb == na, na.partial_cmp(&nb), <&Number as PartialOrd<Number>>::partial_cmp(&&na, &nb))) {
            Ok((c, r, e1, e2, pc, ps)) if c == exp && r == exp.reverse() && e1 == (exp == Ordering::Equal) && e2 == e1 && pc == Some(exp) && ps == Some(exp) => {}
            other => acc.vio("order:signed-zero-differs-from-exact-value", || json!({"a": "Int64(0)", "b": format!("{:?}", b), "expected": format!("{:?}", exp), "observed (a.cmp(b), b.cmp(a), a==b, b==a, partial, &a partial)": format!("{:?}", other.map_err(|p| panic_class(&p)))})),
        }
        // and as the parse of the text: -0 against the number's own text
        if let RNum::F(bits) = b { if !f64::from_bits(bits).is_finite() { return; } }
        let mut tb = String::new();
        refmodel::text::print_num(&b, &mut tb);
        acc.eval();
        match guard(|| jsonb::compare(b"-0", tb.as_bytes())) {
            Ok(Ok(c)) if c == exp => {}
            other => acc.vio("order:signed-zero-differs-from-exact-value", || json!({"a": "text -0", "b": tb, "expected": format!("{:?}", exp), "observed": format!("{:?}", other.map_err(|p| panic_class(&p)))})),
        }
    }));
    // the same relation where a JSONPath predicate compares two numbers of a document:
    // {"a": n, "b": m} with `$.a == $.b`, `$.a < $.b`, `$.a > $.b`, `$.a != $.b`, `$.a <= $.b` through path_match
    {
        let preds: std::sync::Arc<Vec<(&'static str, jsonb::jsonpath::JsonPath<'static>)>> = std::sync::Arc::new(
            ["$.a == $.b", "$.a < $.b", "$.a > $.b", "$.a != $.b", "$.a <= $.b", "$.a >= $.b"].iter().map(|t| (*t, jsonb::jsonpath::parse_json_path(t.as_bytes()).expect("documented predicate parses"))).collect(),
        );
        sp.push(Space::new("order-b64xb64 through JSONPath predicates ($.a == $.b, <, >, !=, <=, >= on {a: n, b: m})", n as u64, move |i, acc| {
            let a = b64[i as usize];
            for b in b64.iter() {
                let exp = num_cmp(&a, b);
                let doc = enc(&RVal::obj(vec![("a", RVal::Num(a)), ("b", RVal::Num(*b))]));
                for (k, (text, path)) in preds.iter().enumerate() {
                    acc.eval();
                    let want = match k { 0 => exp == Ordering::Equal, 1 => exp == Ordering::Less, 2 => exp == Ordering::Greater, 3 => exp != Ordering::Equal, 4 => exp != Ordering::Greater, _ => exp != Ordering::Less };
                    match guard(|| jsonb::path_match(&doc, path.clone())) {
                        Ok(Ok(got)) if got == want => {}
                        other => acc.vio("order:jsonpath-comparison-differs-from-exact-value", || json!({"a": format!("{:?}", a), "b": format!("{:?}", b), "predicate": text, "expected": want, "observed": format!("{:?}", other.map_err(|p| panic_class(&p)))})),
                    }
                }
            }
        }));
    }
    // every B64 integer through serde_json: serde_json::Value::from(u64 / i64) -> jsonb::Value keeps the exact integer
    {
        sp.push(Space::new("codec-b64 integers through the conversion from serde_json::Value", n as u64, move |i, acc| {
            let nmod = b64[i as usize];
            let sv = match nmod { RNum::U(u) => serde_json::Value::from(u), RNum::I(v) => serde_json::Value::from(v), RNum::F(_) => return };
            acc.eval();
            acc.nontrivial += 1;
            let want = match nmod { RNum::I(v) if v >= 0 => RNum::U(v as u64), other => other };
            match guard(|| { let v = jsonb::Value::from(&sv); let o = jsonb::Value::from(sv.clone()); (crate::conv::from_value_raw(&v), crate::conv::from_value_raw(&o)) }) {
                Ok((x, y)) if x == RVal::Num(want) && y == RVal::Num(want) => {}
                other => acc.vio("codec:from-serde_json-integer-not-exact", || json!({"number": format!("{:?}", nmod), "observed": format!("{:?}", other.map_err(|p| panic_class(&p)))})),
            }
        }));
    }
    // the same relation through documents: jsonb::compare on the encoded numbers (bare and as the
    // only element of an array), and the number's way through the Value encoder and from_slice
    {
        let docs: std::sync::Arc<Vec<(Vec<u8>, Vec<u8>)>> = std::sync::Arc::new(b64.iter().map(|n| (enc(&RVal::Num(*n)), enc(&RVal::Arr(vec![RVal::Num(*n)])))).collect());
        // the number followed by a further element: after two equal numbers of different width the
        // walkers must step over each side's own width
        let docs3: std::sync::Arc<Vec<Vec<u8>>> = std::sync::Arc::new(b64.iter().map(|n| enc(&RVal::Arr(vec![RVal::Num(*n), RVal::u(7)]))).collect());
        let d3 = docs3.clone();
        sp.push(Space::new("order-b64xb64 through documents: [n, 7] against [m, 7] and [m, 8]", n as u64, move |i, acc| {
            let a = b64[i as usize];
            for (j, b) in b64.iter().enumerate() {
                acc.eval();
                let exp = num_cmp(&a, b);
                let other8 = enc(&RVal::Arr(vec![RVal::Num(*b), RVal::u(8)]));
                let exp8 = if exp == Ordering::Equal { Ordering::Less } else { exp };
                // the same as members of an object: {"a": n, "b": 7} against {"a": m, "b": 7} and {"a": m, "b": 8}
                let oa = enc(&RVal::obj(vec![("a", RVal::Num(a)), ("b", RVal::u(7))]));
                let ob7 = enc(&RVal::obj(vec![("a", RVal::Num(*b)), ("b", RVal::u(7))]));
                let ob8 = enc(&RVal::obj(vec![("a", RVal::Num(*b)), ("b", RVal::u(8))]));
                let r = guard(|| (jsonb::compare(&d3[i as usize], &d3[j]), jsonb::compare(&d3[i as usize], &other8), jsonb::compare(&oa, &ob7), jsonb::compare(&oa, &ob8)));
                let r = r.map(|(x, y, z, w)| if matches!((&z, &w), (Ok(c), Ok(d)) if *c == exp && *d == exp8) { (x, y) } else { (z, w) });
                match r {
                    Ok((Ok(x), Ok(y))) if x == exp && y == exp8 => {}
                    other => acc.vio("order:compare-on-number-documents-differs-from-exact-value:followed-by-an-element", || json!({"a": format!("{:?}", a), "b": format!("{:?}", b), "expected": format!("{:?}", (exp, exp8)), "observed": format!("{:?}", other.map_err(|p| panic_class(&p)))})),
                }
            }
        }));
        let d1 = docs.clone();
        sp.push(Space::new("order-b64xb64 through documents (compare on encoded numbers, bare and in an array)", n as u64, move |i, acc| {
            let a = b64[i as usize];
            for (j, b) in b64.iter().enumerate() {
                acc.eval();
                let exp = num_cmp(&a, b);
                let r = guard(|| (jsonb::compare(&d1[i as usize].0, &d1[j].0), jsonb::compare(&d1[i as usize].1, &d1[j].1)));
                match r {
                    Ok((Ok(x), Ok(y))) if x == exp && y == exp => {}
                    other => acc.vio("order:compare-on-number-documents-differs-from-exact-value", || json!({"a": format!("{:?}", a), "b": format!("{:?}", b), "expected": format!("{:?}", exp), "observed": format!("{:?}", other.map_err(|p| panic_class(&p)))})),
                }
            }
        }));
        // numbers that are equal have equal comparable keys (the converse is a recorded C14 finding)
        let d5 = docs.clone();
        sp.push(Space::new("equal numbers of B64 have equal comparable keys", n as u64, move |i, acc| {
            let a = b64[i as usize];
            let ka = guard(|| { let mut k = vec![]; jsonb::convert_to_comparable(&d5[i as usize].0, &mut k); k });
            for (j, b) in b64.iter().enumerate() {
                if num_cmp(&a, b) != Ordering::Equal {
                    continue;
                }
                acc.eval();
                let kb = guard(|| { let mut k = vec![]; jsonb::convert_to_comparable(&d5[j].0, &mut k); k });
                match (&ka, &kb) {
                    (Ok(x), Ok(y)) if x == y => {}
                    _ => acc.vio("order:equal-numbers-have-different-comparable-keys", || json!({"a": format!("{:?}", a), "b": format!("{:?}", b)})),
                }
            }
        }));
        let d4 = docs.clone();
        sp.push(Space::new("equality-b64xb64 through documents (contains on encoded numbers, bare and in an array, both directions)", n as u64, move |i, acc| {
            let a = b64[i as usize];
            for (j, b) in b64.iter().enumerate() {
                acc.eval();
                let exp = num_cmp(&a, b) == Ordering::Equal;
                let r = guard(|| (jsonb::contains(&d4[i as usize].0, &d4[j].0), jsonb::contains(&d4[i as usize].1, &d4[j].1), jsonb::contains(&d4[i as usize].1, &d4[j].0)));
                match r {
                    Ok((x, y, z)) if x == exp && y == exp && z == exp => {}
                    other => acc.vio("order:contains-on-number-documents-is-not-value-equality", || json!({"a": format!("{:?}", a), "b": format!("{:?}", b), "expected": exp, "observed": format!("{:?}", other.map_err(|p| panic_class(&p)))})),
                }
            }
        }));
        sp.push(Space::new("codec-b64 through the From conversions into Value (u64, i64, f64, f32)", n as u64, move |i, acc| {
            let nmod = b64[i as usize];
            acc.eval();
            let (v, want): (jsonb::Value, RNum) = match nmod {
                RNum::U(u) => (jsonb::Value::from(u), nmod),
                RNum::I(x) => (jsonb::Value::from(x), nmod),
                RNum::F(bits) => (jsonb::Value::from(f64::from_bits(bits)), nmod),
            };
            let got = crate::conv::from_value_raw(&v);
            let ok = match (&got, want) {
                (RVal::Num(RNum::F(a)), RNum::F(b)) => *a == b || (f64::from_bits(*a).is_nan() && f64::from_bits(b).is_nan()),
                (RVal::Num(g), w) => *g == w,
                _ => false,
            };
            if !ok {
                acc.vio("codec:From-conversion-changes-the-number", || json!({"number": format!("{:?}", nmod), "value": format!("{:?}", got)}));
            }
            // f32: every B64 float that is exactly an f32
            if let RNum::F(bits) = nmod {
                let f = f64::from_bits(bits);
                let g = f as f32;
                if (g as f64).to_bits() == bits || f.is_nan() {
                    let got = crate::conv::from_value_raw(&jsonb::Value::from(g));
                    let same = matches!(&got, RVal::Num(RNum::F(a)) if *a == bits || (f64::from_bits(*a).is_nan() && f.is_nan()));
                    if !same {
                        acc.vio("codec:From-conversion-changes-the-number", || json!({"number": format!("{:?} as f32", nmod), "value": format!("{:?}", got)}));
                    }
                }
            }
        }));
        sp.push(Space::new("codec-b64 through the Value encoder and from_slice", n as u64, move |i, acc| {
            let nmod = b64[i as usize];
            acc.eval();
            acc.nontrivial += 1;
            let v = jsonb::Value::Number(to_num(&nmod));
            for (wrapped, val, expect) in [(false, v.clone(), &docs[i as usize].0), (true, jsonb::Value::Array(vec![v.clone()]), &docs[i as usize].1)] {
                match guard(|| val.to_vec()) {
                    Err(p) => acc.vio(&format!("codec:Value::to_vec:{}", panic_class(&p)), || json!({"number": format!("{:?}", nmod)})),
                    Ok(bytes) => {
                        if bytes != *expect {
                            acc.vio("codec:Value-encoder-bytes-differ-from-model", || json!({"number": format!("{:?}", nmod), "in_array": wrapped, "expected": hex(expect), "observed": hex(&bytes)}));
                        }
                        match guard(|| jsonb::from_slice(&bytes).map(|t| crate::conv::from_value_raw(&t))) {
                            Ok(Ok(back)) => {
                                let want = if wrapped { RVal::Arr(vec![RVal::Num(nmod)]) } else { RVal::Num(nmod) };
                                // NUMBER_ZERO decodes as unsigned zero: the one documented collapse
                                let want = if nmod == RNum::I(0) { if wrapped { RVal::Arr(vec![RVal::u(0)]) } else { RVal::u(0) } } else { want };
                                if back != want {
                                    acc.vio("codec:number-changes-through-Value-encoder-and-from_slice", || json!({"number": format!("{:?}", nmod), "decoded": format!("{:?}", back)}));
                                }
                            }
                            other => acc.vio("codec:from_slice-rejects-encoded-number", || json!({"number": format!("{:?}", nmod), "observed": format!("{:?}", other.map_err(|p| panic_class(&p)))})),
                        }
                    }
                }
            }
        }));
    }
    // laws on the implementation's own matrix (independent of the model)
    sp.push(Space::new("order-laws-b64", 1, move |_, acc| {
        let nums: Vec<Number> = b64.iter().map(to_num).collect();
        let n = nums.len();
        let mut m = vec![0i8; n * n];
        for i in 0..n {
            for j in 0..n {
                m[i * n + j] = match nums[i].cmp(&nums[j]) {
                    Ordering::Less => -1,
                    Ordering::Equal => 0,
                    Ordering::Greater => 1,
                };
            }
        }
        crate::laws::check_total_preorder(&m, n, acc, "order-laws", &|i| format!("{:?}", b64[i]));
        acc.evals((n * n) as u64);
    }));
    sp.push(Space::new("views-and-order: 2^k + every 13-bit offset, k=52..=63", 12 * 8192, |i, acc| {
        let k = 52 + (i / 8192) as u32;
        let d = i % 8192;
        let v: u128 = (1u128 << k) + d as u128;
        if v > u64::MAX as u128 {
            return;
        }
        let mut cands = vec![RNum::U(v as u64)];
        if v <= i64::MAX as u128 {
            cands.push(RNum::I(v as i64));
            cands.push(RNum::I(-(v as i64)));
        }
        if k == 63 {
            // also count down from 2^64
            cands.push(RNum::U(u64::MAX - d));
        }
        for n in cands {
            acc.eval();
            acc.nontrivial += 1;
            let num = to_num(&n);
            views_one(n, &num, acc);
            // against its own float image and the neighbours of that image
            let f0 = num.as_f64().unwrap_or(0.0);
            for f in [refmodel::val::next_down(f0), f0, refmodel::val::next_up(f0)] {
                let b = RNum::f(f);
                let nb = to_num(&b);
                let exp = num_cmp(&n, &b);
                match guard(|| (num.cmp(&nb), nb.cmp(&num), num == nb)) {
                    Ok((c, r, e)) if c == exp && r == exp.reverse() && e == (exp == Ordering::Equal) => {}
                    other => acc.vio("order:int-vs-float-cmp-differs-from-exact-value", || json!({"a": format!("{:?}", n), "b": format!("{:?}", b), "expected": format!("{:?}", exp), "observed": format!("{:?}", other)})),
                }
            }
        }
    }));
    if tier.thorough() {
        // four complete 2^32 sub-universes, in blocks of 2^16
        sp.push(Space::new("codec-all-u32", 1 << 16, |b, acc| {
            for lo in 0..(1u64 << 16) {
                codec_one(RNum::U((b << 16) | lo), acc, false);
            }
            acc.evals(1 << 16);
            acc.nontrivial += 1 << 16;
        }));
        sp.push(Space::new("codec-all-i32", 1 << 16, |b, acc| {
            for lo in 0..(1u64 << 16) {
                codec_one(RNum::i((((b << 16) | lo) as u32 as i32) as i64), acc, false);
            }
            acc.evals(1 << 16);
            acc.nontrivial += 1 << 16;
        }));
        sp.push(Space::new("codec-all-f32-widened", 1 << 16, |b, acc| {
            for lo in 0..(1u64 << 16) {
                codec_one(RNum::f(f32::from_bits(((b << 16) | lo) as u32) as f64), acc, false);
            }
            acc.evals(1 << 16);
            acc.nontrivial += 1 << 16;
        }));
        sp.push(Space::new("codec-all-f64-high32", 1 << 16, |b, acc| {
            for lo in 0..(1u64 << 16) {
                codec_one(RNum::f(f64::from_bits(((b << 16) | lo) << 32)), acc, false);
            }
            acc.evals(1 << 16);
            acc.nontrivial += 1 << 16;
        }));
        // integers straddling 2^53..2^64 against their float neighbours: i64/u64 near every power of two +-256
        sp.push(Space::new("order-pow2-neighbourhoods", 65 * 513, |i, acc| {
            let k = (i / 513) as u32;
            let d = (i % 513) as i128 - 256;
            let v: i128 = (1i128 << k) + d;
            if v < i64::MIN as i128 || v > u64::MAX as i128 {
                return;
            }
            let a = if v >= 0 { RNum::U(v as u64) } else { RNum::I(v as i64) };
            let na = to_num(&a);
            let f0 = v as f64;
            for f in [refmodel::val::next_down(f0), f0, refmodel::val::next_up(f0)] {
                for neg in [false, true] {
                    let b = RNum::f(if neg { -f } else { f });
                    let nb = to_num(&b);
                    acc.eval();
                    acc.nontrivial += 1;
                    let exp = num_cmp(&a, &b);
                    match guard(|| (na.cmp(&nb), nb.cmp(&na))) {
                        Err(p) => acc.vio(&format!("order:{}", panic_class(&p)), || json!({"a": format!("{:?}", a), "b": format!("{:?}", b)})),
                        Ok((c, rc)) => {
                            if c != exp || rc != exp.reverse() {
                                acc.vio("order:int-vs-float-cmp-differs-from-exact-value", || json!({"a": format!("{:?}", a), "b": format!("{:?}", b), "expected": format!("{:?}", exp), "observed": format!("{:?}", c)}));
                            }
                        }
                    }
                }
            }
        }));
    }
    sp
}

pub fn meta(tier: Tier) -> (String, serde_json::Value, Vec<String>) {
    (
        "codec: every number of the stated complete sub-universes and of the boundary set B64 is encoded, compared byte-for-byte with the model encoder, decoded and compared exactly; malformed: every byte string of length 0..3 and tag x marker-fill strings of length 4..10; order: the full relation B64 x B64 against exact integer arithmetic plus the total-preorder law on the implementation's own matrix (all triples via the ranking criterion). Non-trivial = a well-formed number case or an ordered pair.".into(),
        json!({"codec": if tier.thorough() {"all u16,i16,f64-top16 patterns; all 2^32 u32, i32, f32-widened, f64-high-word patterns; B64"} else {"all u16, i16, f64-top16 patterns; B64"}, "malformed": "all byte strings len<=3; 256 tags x 16x16 marker fills for len 4..10", "order": "B64xB64 full matrix, all triples", "not_covered": "64-bit values outside B64 and the 2^32 sub-universes (this family does not sample)"}),
        vec!["B64 spans every width boundary and the 2^53..2^64 integer/float crossover".into()],
    )
}
