//! C09 — JSONPath syntax: every documented form parses as intended; printing is faithful.
use crate::harness::*;
use crate::pathconv::*;
use refmodel::jgen;
use refmodel::jparse::{parse_path, Verdict};
use refmodel::jpath::*;
use refmodel::jrender;
use serde_json::json;
use std::sync::Arc;

fn simple_names(p: &JPath) -> bool {
    fn ok_name(n: &str) -> bool {
        !n.is_empty() && n.chars().all(|c| c.is_ascii_alphanumeric() || c == '_' || !c.is_ascii()) && !n.chars().next().unwrap().is_ascii_digit()
    }
    fn ok_str(s: &str) -> bool {
        !s.starts_with("ILL-FORMED-UTF8[") && !s.contains('"') && !s.contains('\\') && !s.chars().any(|c| (c as u32) < 0x20)
    }
    fn st(s: &Step) -> bool {
        match s {
            Step::Dot(n) | Step::Colon(n) => ok_name(n),
            Step::ObjField(n) => ok_str(n),
            Step::Filter(e) | Step::Predicate(e) => ex(e),
            _ => true,
        }
    }
    fn ex(e: &Expr) -> bool {
        match e {
            Expr::Paths(p) | Expr::Exists(p) => p.iter().all(st),
            Expr::Lit(Lit::Str(s)) => ok_str(s),
            Expr::Lit(Lit::Num(n)) => n.is_finite(),
            Expr::Lit(_) => true,
            Expr::Cmp(_, l, r) | Expr::And(l, r) | Expr::Or(l, r) | Expr::ArithBinary(_, l, r) => ex(l) && ex(r),
            Expr::ArithUnary(_, x) => ex(x),
        }
    }
    p.0.iter().all(st)
}

/// print/parse faithfulness for an accepted path
/// numbers in literals are compared the way jsonb's own `PartialEq` compares them (by value)
fn norm_nums(p: &JPath) -> JPath {
    fn st(s: &Step) -> Step {
        match s {
            Step::Filter(e) => Step::Filter(Box::new(ex(e))),
            Step::Predicate(e) => Step::Predicate(Box::new(ex(e))),
            x => x.clone(),
        }
    }
    fn ex(e: &Expr) -> Expr {
        match e {
            Expr::Lit(Lit::Num(refmodel::RNum::I(i))) if *i >= 0 => Expr::Lit(Lit::Num(refmodel::RNum::U(*i as u64))),
            Expr::Paths(p) => Expr::Paths(p.iter().map(st).collect()),
            Expr::Exists(p) => Expr::Exists(p.iter().map(st).collect()),
            Expr::Cmp(c, l, r) => Expr::Cmp(*c, Box::new(ex(l)), Box::new(ex(r))),
            Expr::And(l, r) => Expr::And(Box::new(ex(l)), Box::new(ex(r))),
            Expr::Or(l, r) => Expr::Or(Box::new(ex(l)), Box::new(ex(r))),
            Expr::ArithUnary(o, x) => Expr::ArithUnary(*o, Box::new(ex(x))),
            Expr::ArithBinary(o, l, r) => Expr::ArithBinary(*o, Box::new(ex(l)), Box::new(ex(r))),
            x => x.clone(),
        }
    }
    JPath(p.0.iter().map(st).collect())
}

fn roundtrip(ip: &jsonb::jsonpath::JsonPath, acc: &mut Acc, input: &[u8]) {
    let m = norm_nums(&from_impl_path(ip));
    if !simple_names(&m) {
        return;
    }
    let printed = match guard(|| format!("{}", ip)) {
        Ok(s) => s,
        Err(p) => {
            acc.vio(&format!("print:{}", panic_class(&p)), || json!({"input": String::from_utf8_lossy(input)}));
            return;
        }
    };
    match guard(|| jsonb::jsonpath::parse_json_path(printed.as_bytes()).map(|x| norm_nums(&from_impl_path(&x)))) {
        Err(p) => acc.vio(&format!("print-parse:{}", panic_class(&p)), || json!({"input": String::from_utf8_lossy(input), "printed": printed})),
        Ok(Err(_)) => acc.vio("print-parse:printout-is-rejected", || json!({"input": String::from_utf8_lossy(input), "printed": printed, "ast": format!("{:?}", m)})),
        Ok(Ok(back)) => {
            if back != m {
                acc.vio("print-parse:printout-parses-to-a-different-structure", || json!({"input": String::from_utf8_lossy(input), "printed": printed, "ast": format!("{:?}", m), "reparsed": format!("{:?}", back)}));
            }
        }
    }
}

/// judge one raw input against the three-valued model parser
pub fn judge_raw(input: &[u8], acc: &mut Acc) {
    acc.eval();
    let show = || json!({"input": String::from_utf8_lossy(input), "hex": refmodel::layout::hex(input)});
    let got = guard(|| jsonb::jsonpath::parse_json_path(input).map(|p| (from_impl_path(&p), p)));
    let got = match got {
        Err(p) => {
            acc.outcome("panic");
            acc.vio(&format!("parse:{}", panic_class(&p)), show);
            return;
        }
        Ok(g) => g,
    };
    match (parse_path(input), got) {
        (Verdict::Accept(m), Ok((g, ip))) => {
            acc.outcome("accept/accept");
            acc.nontrivial += 1;
            if g != m {
                acc.vio("parse:accepted-with-unintended-structure", || json!({"input": show(), "intended": format!("{:?}", m), "observed": format!("{:?}", g)}));
            }
            roundtrip(&ip, acc, input);
        }
        (Verdict::Accept(m), Err(_)) => {
            acc.outcome("accept/reject");
            // classify by the literal involved so the recorded causes stay separate
            let s = String::from_utf8_lossy(input);
            let class = if s.contains("\"\"") { "parse:rejects-documented-form:empty-string-literal" } else { "parse:rejects-documented-form" };
            acc.vio(class, || json!({"input": show(), "intended": format!("{:?}", m)}));
        }
        (Verdict::Reject(_), Err(_)) => acc.outcome("reject/reject"),
        (Verdict::Reject(why), Ok((g, _))) => {
            acc.outcome("reject/accept");
            acc.vio("parse:accepts-input-outside-the-language", || json!({"input": show(), "why_outside": why, "observed": format!("{:?}", g)}));
        }
        (Verdict::Unspecified(_), Ok((_, ip))) => {
            acc.unspecified += 1;
            acc.outcome("unspecified/accept");
            roundtrip(&ip, acc, input);
        }
        (Verdict::Unspecified(_), Err(_)) => {
            acc.unspecified += 1;
            acc.outcome("unspecified/reject");
        }
    }
}

pub const TOKENS: [&[u8]; 36] = [
    b"$", b"@", b".", b"*", b"[", b"]", b"(", b")", b"?", b",", b":", b"\"", b"\\", b"u", b"{", b"}", b"'", b"a", b"1", b"-", b"+", b" ", b"==", b"!=", b"<", b"<=", b"&&", b"||", b"last", b"to", b"exists", b"null", b"true", b"\"a\"", b"\"\"", b"1.5",
];

pub fn spaces(tier: Tier) -> Vec<Space<'static>> {
    let mut sp: Vec<Space> = vec![];
    let asts = Arc::new(jgen::syntax_paths());
    let a1 = asts.clone();
    let full_slots = if tier.thorough() { 12 } else { 9 };
    sp.push(Space::new("ast-x-renderings", asts.len() as u64, move |i, acc| {
        let p = &a1[i as usize];
        let rs = jrender::all_renderings(p, full_slots);
        for r in &rs {
            acc.eval();
            acc.nontrivial += 1;
            let show = || json!({"rendering": r, "intended": format!("{:?}", p)});
            match guard(|| jsonb::jsonpath::parse_json_path(r.as_bytes()).map(|x| (from_impl_path(&x), x))) {
                Err(pn) => acc.vio(&format!("parse:{}", panic_class(&pn)), show),
                Ok(Err(_)) => {
                    acc.outcome("rendering-rejected");
                    let class = if r.contains("\"\"") {
                        "parse:rejects-documented-form:empty-string-literal"
                    } else if r.bytes().any(|b| b == b'\t' || b == b'\n') && jsonb::jsonpath::parse_json_path(r.replace(['\t', '\n'], " ").as_bytes()).is_ok() {
                        "parse:rejects-documented-form:tab-or-newline-as-spacing"
                    } else {
                        "parse:rejects-documented-form"
                    };
                    acc.vio(class, show);
                }
                Ok(Ok((g, ip))) => {
                    acc.outcome("rendering-accepted");
                    if g != *p {
                        let class = if r.bytes().any(|b| b == b'\t' || b == b'\n') { "parse:accepted-with-unintended-structure:tab-or-newline-joins-a-name" } else { "parse:accepted-with-unintended-structure" };
                        acc.vio(class, || json!({"ctx": show(), "observed": format!("{:?}", g)}));
                    }
                    roundtrip(&ip, acc, r.as_bytes());
                }
            }
            // the model parser must agree with the intended AST too (self-test of the model)
            if let Verdict::Accept(m) = parse_path(r.as_bytes()) {
                if m != *p {
                    acc.vio("MODEL-SELFTEST:model-parser-disagrees-with-renderer", || json!({"rendering": r, "intended": format!("{:?}", p), "model": format!("{:?}", m)}));
                }
            } else {
                acc.vio("MODEL-SELFTEST:model-parser-does-not-accept-rendering", || json!({"rendering": r, "verdict": format!("{:?}", parse_path(r.as_bytes()))}));
            }
        }
        acc.sample(|| json!({"ast": format!("{:?}", p), "renderings": rs.iter().take(4).collect::<Vec<_>>()}));
    }));
    // hand-written documented forms (golden file) incl. Snowflake style
    let golden: Vec<&'static str> = vec![
        "$", "$.*", "$[*]", "$.store.book[*].*", "$.store.book[0].price", "$.store.book[last].isbn", "$.store.book[0,1, last - 2].price", "$.store.book[0,1 to last-1]", "$.\"store\".\"book\"", "$[*].book.price ? (@ == 10)",
        "$.store.book?(@.price > 10).title", "$.store.book?(@.price < $.expensive).price", "$.store.book?(@.price < 10 && @.category == \"fiction\")", "$.store.book?(@.price > 20 && (@.category == \"reference\" || @.category == \"fiction\"))",
        "[1][2]", "[\"k1\"][\"k2\"]", "k1.k2:k3", "k1[\"k2\"][1]", "$ > 1", "$.* == 0", "$[*] > 1", "$.a > $.b", "$.price > 10 || $.category == \"reference\"", "$.store.book?(exists(@.price?(@ > 20)))",
        "$.store?(exists(@.book?(exists(@.category?(@ == \"fiction\")))))", "5 + 5", "10 % 5", "+$.store.book[0].price", "-$.store.book[0].price", "$.store.book[0].price + 5", "$.a == 1.5", "$.a == 1e3", "$.a == -0.5", "$.a == 2.5E-1", "$.a == \"\"", "\"\" == $.a", "1 == $.a",
        "$.\"a b\"", "$:\"a b\"", "$[\"a b\"]",
    ];
    sp.push(Space::new("documented-examples", golden.len() as u64, move |i, acc| {
        judge_raw(golden[i as usize].as_bytes(), acc);
        if !matches!(parse_path(golden[i as usize].as_bytes()), Verdict::Accept(_)) {
            acc.vio("MODEL-SELFTEST:documented-example-not-in-core-grammar", || json!({"input": golden[i as usize]}));
        }
    }));
    // number literals in every spelling of sign x mantissa x exponent marker (e / E) x exponent sign, on
    // either side of a comparison, in a filter, and alone
    {
        let mut lits: Vec<String> = vec![];
        for sign in ["", "-"] {
            for mant in ["0", "1", "12", "1.5", "0.5", "10.0", "123456789"] {
                for exp in ["", "e5", "E5", "e+5", "E+5", "e-2", "E-2", "e05", "E0", "e0"] {
                    lits.push(format!("{}{}{}", sign, mant, exp));
                }
            }
        }
        sp.push(Space::new("number literals: sign x mantissa x exponent spelling (e/E, signed, padded) in four contexts", lits.len() as u64, move |i, acc| {
            let n = &lits[i as usize];
            for t in [format!("$.a == {}", n), format!("{} == $.a", n), format!("$[*]?(@ > {})", n), format!("$.a?(@.b <= {} && @.c != {})", n, n), n.clone()] {
                judge_raw(t.as_bytes(), acc);
            }
        }));
    }
    // multi-byte sequences (byte order marks, Unicode white space, NUL run, CRLF) inserted at every
    // position of the documented examples and a few renderings
    {
        const SEQS: [&[u8]; 10] = [b"\xEF\xBB\xBF", b"\xFE\xFF", b"\xC2\x85", b"\xC2\xA0", b"\xE2\x80\xA8", b"\xE3\x80\x80", b"\xE2\x80\x8B", b"\x00\x00", b"\r\n", b"\x0B"];
        let bases: Vec<&str> = vec!["$", "$.a", "$.a[0, 1 to last]", "$[*]?(@.a == 1 && exists(@.b))", "$.a > 1 || $.b == \"x\"", "$:a[\"b\"].*", "a.b[last - 1]", "exists($.a)", "$[*]?(@ != null)"];
        sp.push(Space::new("multi-byte sequences (BOMs, Unicode white space, NUL run, CRLF, VT) and every single byte value inserted at every position", bases.len() as u64, move |i, acc| {
            let t = bases[i as usize].as_bytes();
            for pos in 0..=t.len() {
                for s in SEQS {
                    let mut x = t[..pos].to_vec();
                    x.extend_from_slice(s);
                    x.extend_from_slice(&t[pos..]);
                    judge_raw(&x, acc);
                }
                // and every single byte value
                for b in 0..=255u8 {
                    let mut x = t[..pos].to_vec();
                    x.push(b);
                    x.extend_from_slice(&t[pos..]);
                    judge_raw(&x, acc);
                }
            }
        }));
    }
    // member names that are keywords of the path language or literals, in every name position
    {
        const KW: [&str; 12] = ["last", "to", "exists", "null", "true", "false", "LAST", "To", "Exists", "lastx", "tox", "nullx"];
        sp.push(Space::new("names that are keywords or literals in every name position", KW.len() as u64, |i, acc| {
            let k = KW[i as usize];
            for t in [format!("$.{}", k), format!("$:{}", k), format!("$[\"{}\"]", k), format!("$.a.{}", k), format!("$.{}.a", k), format!("$.{}[0]", k), format!("$.{}[last]", k), format!("$[0 to last].{}", k), format!("$[*]?(@.{} == 1)", k), format!("$[*]?(exists(@.{}))", k), format!("$.{} == null", k), format!("{}.a", k), format!("{}", k)] {
                judge_raw(t.as_bytes(), acc);
            }
        }));
    }
    // numbers around every width boundary as indices and literals
    {
        let nums = crate::checks::c20::extreme_number_texts();
        sp.push(Space::new("numbers around width boundaries as indices and literals", nums.len() as u64, move |i, acc| {
            let n = &nums[i as usize];
            for t in [format!("$[{}]", n), format!("$[last - {}]", n), format!("$[last + {}]", n), format!("$[{} to last]", n), format!("$[0 to {}]", n), format!("$[*]?(@ == {})", n), format!("$.a > {}", n), format!("$[*]?(@.a < {}.5)", n), format!("$[*]?(@ >= {}e2)", n)] {
                judge_raw(t.as_bytes(), acc);
            }
        }));
    }
    // every Unicode scalar value as a member name: after a dot, inside a name, after a colon, quoted
    sp.push(Space::new("every scalar value in a member name (dot, colon, bracket-quoted)", crate::univ::N_CHARS, |i, acc| {
        let c = crate::univ::nth_char(i);
        for t in [format!("$.{}", c), format!("$.a{}b", c), format!("$:{}x", c), format!("$[\"{}\"]", c), format!("$.a?(@.{} == \"{}\")", c, c)] {
            judge_raw(t.as_bytes(), acc);
        }
    }));
    // (b) token soup
    let l = if tier.thorough() { 5 } else { 4 };
    let nt = TOKENS.len() as u64;
    let total: u64 = (0..=l).map(|k| nt.pow(k)).sum();
    sp.push(Space::new("token-soup", total.div_ceil(256), move |blk, acc| {
        for idx in (blk * 256)..((blk + 1) * 256).min(total) {
            let mut i = idx;
            let mut len = 0;
            let mut c = 1;
            while i >= c {
                i -= c;
                c *= nt;
                len += 1;
            }
            let mut toks = [0usize; 8];
            for k in 0..len {
                toks[len - 1 - k] = (i % nt) as usize;
                i /= nt;
            }
            let mut text = Vec::with_capacity(16);
            for k in 0..len {
                text.extend_from_slice(TOKENS[toks[k]]);
            }
            judge_raw(&text, acc);
        }
    }));
    // (c) single-token corruptions of canonical renderings
    let a2 = asts.clone();
    let stride = if tier.thorough() { 1 } else { 3 };
    sp.push(Space::new("single-token-corruptions", asts.len().div_ceil(stride) as u64, move |i, acc| {
        let p = &a2[i as usize * stride];
        let t = print_path(p).into_bytes();
        let extra: [&[u8]; 3] = [b"\xFF", b"\x00", b"\t"];
        for pos in 0..=t.len() {
            for tok in TOKENS.iter().chain(extra.iter()) {
                let mut x = t[..pos].to_vec();
                x.extend_from_slice(tok);
                x.extend_from_slice(&t[pos..]);
                judge_raw(&x, acc);
                if pos < t.len() {
                    let mut y = t[..pos].to_vec();
                    y.extend_from_slice(tok);
                    y.extend_from_slice(&t[pos + 1..]);
                    judge_raw(&y, acc);
                }
            }
            if pos < t.len() {
                let mut d = t.clone();
                d.remove(pos);
                judge_raw(&d, acc);
                // truncation (unterminated quotes / brackets at every position)
                judge_raw(&t[..pos], acc);
                if pos + 1 < t.len() {
                    let mut s = t.clone();
                    s.swap(pos, pos + 1);
                    judge_raw(&s, acc);
                }
            }
        }
    }));
    sp
}

pub fn meta(tier: Tier) -> (String, serde_json::Value, Vec<String>) {
    (
        "LANG: (a) every AST of the syntax enumeration (all step sequences <=3 over the 16-step alphabet with the root written or omitted, 73x index forms incl. last+-k at the i32 limits, names that look like keywords, ~600 filter/predicate expressions with every literal kind on either side, &&/|| precedence and associativity mixes, nested exists, arithmetic) rendered in EVERY spacing variant (all 2^slots up to the slot bound, beyond it each slot singly and all together; tab and newline in each slot singly), keyword case variants, quoted and unquoted names, != / <>, redundant parentheses: must be accepted with exactly the intended structure, and print -> parse must give the structure back. (b) EVERY token string up to the length bound over a 36-token alphabet and (c) every single-token insertion / substitution / deletion / transposition / truncation of every canonical rendering: never a panic; accepted iff the model's core grammar accepts (equal AST), rejected if even the liberal grammar rejects, not judged in between. Non-trivial = accepted input.".into(),
        json!({"full_slot_bound": if tier.thorough() {12} else {9}, "token_soup_max_len": if tier.thorough() {5} else {4}, "token_alphabet": 36, "unspecified": "keyword case other than last/to, numeric overflow, -0, names starting with a digit or holding punctuation/backslashes, arithmetic mixed with comparisons, bare operands, the empty input"}),
        vec!["the model's liberal grammar is a superset of anything a reasonable implementation accepts".into()],
    )
}
