//! C07 — any chain of operations keeps documents canonical and equal to the tree result.
//! Explicit-state breadth-first search whose transitions call the real library functions;
//! cross-checked with a stateright model over the same transition function.
use crate::calls::*;
use crate::checks::c05::{keypaths, to_keypath};
use crate::conv::*;
use crate::harness::*;
use crate::pathconv::to_impl_path;
use jsonb::jsonpath::Mode;
use rayon::prelude::*;
use refmodel::jpath::*;
use refmodel::layout::{enc, hex, strict_dec};
use refmodel::ops;
use refmodel::{RNum, RVal};
use serde_json::json;
use std::collections::HashSet;
use std::sync::Arc;

pub struct Trans {
    pub label: String,
    /// Ok(successor bytes) or Err(description) as produced by the implementation
    pub got: Result<Vec<u8>, String>,
    /// what the tree model says: Ok(doc) or Err
    pub want: Result<RVal, String>,
}

pub fn menu_paths() -> Vec<JPath> {
    let cur = || Expr::Paths(vec![Step::Current]);
    let one = || Expr::Lit(Lit::Num(RNum::U(1)));
    vec![
        JPath(vec![Step::Root]),
        JPath(vec![Step::Root, Step::DotWild]),
        JPath(vec![Step::Root, Step::BracketWild]),
        JPath(vec![Step::Root, Step::Dot("a".into())]),
        JPath(vec![Step::Root, Step::Indices(vec![AIdx::One(Idx::N(0))])]),
        JPath(vec![Step::Root, Step::Indices(vec![AIdx::One(Idx::Last(0))])]),
        JPath(vec![Step::Root, Step::Indices(vec![AIdx::Slice(Idx::N(0), Idx::Last(0))])]),
        JPath(vec![Step::Root, Step::BracketWild, Step::Filter(Box::new(Expr::Cmp(Cmp::Eq, Box::new(cur()), Box::new(one()))))]),
        JPath(vec![Step::Root, Step::DotWild, Step::Filter(Box::new(Expr::Exists(vec![Step::Current, Step::Dot("a".into())])))]),
        JPath(vec![Step::Root, Step::BracketWild, Step::Dot("a".into())]),
        JPath(vec![Step::Root, Step::BracketWild, Step::BracketWild]),
        // repeated and overlapping subscripts select an element once per mention
        JPath(vec![Step::Root, Step::Indices(vec![AIdx::One(Idx::N(0)), AIdx::One(Idx::N(0))])]),
        JPath(vec![Step::Root, Step::Indices(vec![AIdx::Slice(Idx::N(0), Idx::N(1)), AIdx::Slice(Idx::N(1), Idx::Last(0))])]),
        JPath(vec![Step::Root, Step::Indices(vec![AIdx::Slice(Idx::N(0), Idx::Last(-1))])]),
        JPath(vec![Step::Predicate(Box::new(Expr::Cmp(Cmp::Gt, Box::new(Expr::Paths(vec![Step::Root, Step::Dot("a".into())])), Box::new(Expr::Lit(Lit::Num(RNum::U(0)))))))]),
    ]
}

pub struct Ctx {
    pub pool: Arc<Vec<(RVal, Vec<u8>)>>,
    pub paths: Vec<(JPath, jsonb::jsonpath::JsonPath<'static>)>,
}

pub fn ctx() -> Ctx {
    Ctx { pool: mkpool(pool8()), paths: menu_paths().into_iter().map(|p| { let i = to_impl_path(&p); (p, i) }).collect() }
}

/// every transition from the state `b` (canonical bytes of tree `v`)
pub fn transitions(v: &RVal, b: &[u8], cx: &Ctx) -> Vec<Trans> {
    let mut out = vec![];
    // editing / building / set functions
    for c in edit_calls(v, &Opts { extremes: false, pool: cx.pool.clone(), sets: true }) {
        let mut buf = Vec::new();
        let got = match guard(|| (c.run)(&mut buf)) {
            Err(p) => Err(format!("PANIC {} {}", p.site, p.msg)),
            Ok(Err(e)) => Err(format!("{:?}", e)),
            Ok(Ok(())) => Ok(buf),
        };
        out.push(Trans { label: c.label, got, want: c.expect.map_err(|e| format!("{:?}", e)) });
    }
    // extraction
    let opt = |label: String, g: Result<Option<Vec<u8>>, PanicInfo>, w: Option<RVal>, out: &mut Vec<Trans>| {
        let got = match g {
            Err(p) => Err(format!("PANIC {} {}", p.site, p.msg)),
            Ok(None) => Err("None".to_string()),
            Ok(Some(x)) => Ok(x),
        };
        out.push(Trans { label, got, want: w.ok_or("None".to_string()) });
    };
    let len = ops::array_length(v).unwrap_or(0);
    for i in 0..=len {
        opt(format!("get_by_index({})", i), guard(|| jsonb::get_by_index(b, i)), ops::get_by_index(v, i), &mut out);
    }
    if let RVal::Obj(o) = v {
        for k in o.keys() {
            opt(format!("get_by_name({:?})", k), guard(|| jsonb::get_by_name(b, k, false)), ops::get_by_name(v, k, false), &mut out);
            opt(format!("get_by_name_ic({:?})", k.to_uppercase()), guard(|| jsonb::get_by_name(b, &k.to_uppercase(), true)), ops::get_by_name(v, &k.to_uppercase(), true), &mut out);
        }
    }
    for path in keypaths(v, 2, false) {
        let kp: Vec<_> = path.iter().map(to_keypath).collect();
        opt(format!("get_by_keypath({:?})", path), guard(|| jsonb::get_by_keypath(b, kp.iter())), ops::get_by_keypath(v, &path), &mut out);
    }
    opt("object_keys".into(), guard(|| jsonb::object_keys(b)), ops::object_keys(v), &mut out);
    match (guard(|| jsonb::array_values(b)), ops::array_values(v)) {
        (Ok(Some(g)), Some(w)) if g.len() == w.len() => {
            for (i, (x, y)) in g.into_iter().zip(w).enumerate() {
                out.push(Trans { label: format!("array_values[{}]", i), got: Ok(x), want: Ok(y) });
            }
        }
        (Ok(None), None) => {}
        (g, w) => out.push(Trans { label: "array_values".into(), got: Err(format!("{:?}", g.map(|x| x.map(|y| y.len())))), want: Err(format!("{:?}", w.map(|x| x.len()))) }),
    }
    match (guard(|| jsonb::object_each(b)), ops::object_each(v)) {
        (Ok(Some(g)), Some(w)) if g.len() == w.len() => {
            for ((gk, gv), (wk, wv)) in g.into_iter().zip(w) {
                if gk != wk.as_bytes() {
                    out.push(Trans { label: "object_each-key".into(), got: Err(hex(&gk)), want: Err(wk) });
                }
                out.push(Trans { label: format!("object_each[{:?}]", String::from_utf8_lossy(&gk)), got: Ok(gv), want: Ok(wv) });
            }
        }
        (Ok(None), None) => {}
        (g, w) => out.push(Trans { label: "object_each".into(), got: Err(format!("{:?}", g.map(|x| x.map(|y| y.len())))), want: Err(format!("{:?}", w.map(|x| x.len()))) }),
    }
    // path selection
    for (mp, ip) in &cx.paths {
        let model = eval(mp, v);
        for (mname, mode) in [("All", Mode::All), ("First", Mode::First), ("Array", Mode::Array), ("Mixed", Mode::Mixed)] {
            let label = format!("select[{}]({})", mname, print_path(mp));
            let s = match crate::checks::c08::select(ip, mode, b) {
                Ok(s) => s,
                Err(p) => {
                    out.push(Trans { label, got: Err(format!("PANIC {} {}", p.site, p.msg)), want: Err("no panic".into()) });
                    continue;
                }
            };
            if let Err(e) = &s.res {
                out.push(Trans { label, got: Err(e.clone()), want: Err("path evaluates".into()) });
                continue;
            }
            let want_items: Vec<RVal> = match &model {
                EvalResult::Predicate(Tri::T) => vec![RVal::Bool(true)],
                EvalResult::Predicate(Tri::F) => vec![RVal::Bool(false)],
                EvalResult::Predicate(Tri::U) | EvalResult::Unsupported => continue,
                EvalResult::Items(it) => {
                    if it.iter().any(|(_, c)| !*c) {
                        continue;
                    }
                    let items: Vec<RVal> = it.iter().map(|(x, _)| x.clone()).collect();
                    match mname {
                        "All" => items,
                        "First" => items.into_iter().take(1).collect(),
                        "Array" => vec![RVal::Arr(items)],
                        _ => {
                            if items.len() >= 2 {
                                vec![RVal::Arr(items)]
                            } else {
                                items
                            }
                        }
                    }
                }
            };
            let is_pred = matches!(model, EvalResult::Predicate(_));
            let parts = if is_pred { Some(vec![s.data.clone()]) } else { crate::checks::c08::split(&s.data, &s.offsets) };
            match parts {
                Some(parts) if parts.len() == want_items.len() => {
                    for (k, (g, w)) in parts.into_iter().zip(want_items).enumerate() {
                        out.push(Trans { label: format!("{}#{}", label, k), got: Ok(g), want: Ok(w) });
                    }
                }
                other => out.push(Trans { label, got: Err(format!("{} items / offsets {:?}", other.map_or(0, |p| p.len()), s.offsets)), want: Err(format!("{} items", want_items.len())) }),
            }
        }
    }
    // round trips
    {
        let got = match guard(|| jsonb::from_slice(b).map(|x| x.to_vec())) {
            Ok(Ok(x)) => Ok(x),
            other => Err(format!("{:?}", other.map(|r| r.map(|_| ())))),
        };
        out.push(Trans { label: "from_slice->to_vec".into(), got, want: Ok(v.clone()) });
    }
    if v.all_finite() && v.nonneg_ints_unsigned() {
        let got = match guard(|| {
            let t = jsonb::to_string(b);
            jsonb::parse_value(t.as_bytes()).map(|x| x.to_vec())
        }) {
            Ok(Ok(x)) => Ok(x),
            other => Err(format!("{:?}", other.map(|r| r.map(|_| ())))),
        };
        out.push(Trans { label: "to_string->parse_value->to_vec".into(), got, want: Ok(v.clone()) });
    }
    out
}

/// judge one transition; returns the successor bytes if the step produced a document
pub fn judge(t: &Trans, acc: &mut Acc, ctx: &dyn Fn() -> serde_json::Value) -> Option<Vec<u8>> {
    acc.eval();
    let fname = t.label.split(['(', '[', '#']).next().unwrap_or("?").to_string();
    match (&t.got, &t.want) {
        (Ok(g), Ok(w)) => {
            acc.outcome("step-ok");
            let canon = strict_dec(g);
            if *g != enc(w) {
                let class = match &canon {
                    Ok(_) => format!("chain:{}:wrong-document", fname),
                    Err(_) => match jsonb::parse_jsonb(g) {
                        Ok(val) if from_value(&val) == *w => format!("chain:{}:right-value-but-not-canonical", fname),
                        _ => format!("chain:{}:wrong-and-not-canonical", fname),
                    },
                };
                acc.vio(&class, || json!({"ctx": ctx(), "step": t.label, "expected": format!("{:?}", w), "observed_hex": hex(g), "strict": format!("{:?}", canon)}));
                None
            } else {
                Some(g.clone())
            }
        }
        (Err(g), Err(w)) => {
            acc.outcome("step-err/none");
            if g.starts_with("PANIC") {
                acc.vio(&format!("chain:{}:panic", fname), || json!({"ctx": ctx(), "step": t.label, "observed": g}));
            } else if w != "None" && g != w && !w.contains("items") {
                acc.vio(&format!("chain:{}:wrong-error", fname), || json!({"ctx": ctx(), "step": t.label, "expected": w, "observed": g}));
            } else if w.contains("items") {
                acc.vio(&format!("chain:{}:wrong-item-count", fname), || json!({"ctx": ctx(), "step": t.label, "expected": w, "observed": g}));
            }
            None
        }
        (g, w) => {
            acc.vio(&format!("chain:{}:outcome-differs-from-tree", fname), || json!({"ctx": ctx(), "step": t.label, "expected": format!("{:?}", w), "observed": format!("{:?}", g.as_ref().map(|x| hex(x)))}));
            None
        }
    }
}

pub fn initial_states() -> Vec<RVal> {
    let mut v = refmodel::gen::Uni::new(refmodel::gen::s3(), vec!["a"], 1, 1).all(1);
    v.extend([
        RVal::arr(vec![RVal::arr(vec![]), RVal::obj(vec![])]),
        RVal::obj(vec![("a", RVal::arr(vec![])), ("b", RVal::obj(vec![]))]),
        RVal::obj(vec![("é", RVal::u(1)), ("", RVal::Null)]),
        RVal::arr(vec![RVal::arr(vec![RVal::arr(vec![RVal::u(1)])])]),
        RVal::obj(vec![("a", RVal::obj(vec![("a", RVal::obj(vec![("a", RVal::Null)]))]))]),
        RVal::arr(vec![RVal::u(1), RVal::u(1), RVal::Num(RNum::I(1)), RVal::f(1.0)]),
        RVal::arr(vec![RVal::s("a"), RVal::s("a"), RVal::Null]),
        RVal::obj(vec![("A", RVal::u(1)), ("a", RVal::u(256))]),
        RVal::arr(vec![RVal::obj(vec![("a", RVal::u(1))]), RVal::obj(vec![("a", RVal::arr(vec![RVal::Null]))])]),
        RVal::f(1.5),
        RVal::Bool(true),
        RVal::s(""),
        RVal::u(0),
        RVal::i(-129),
        RVal::obj(vec![("a", RVal::Null), ("b", RVal::obj(vec![("c", RVal::Null), ("d", RVal::arr(vec![RVal::Null]))]))]),
        // keys whose byte order differs from their length order and from their case-folded order
        RVal::obj(vec![("aa", RVal::u(1)), ("b", RVal::s("two"))]),
        RVal::obj(vec![("", RVal::Null), ("A", RVal::u(1)), ("a", RVal::u(2)), ("ab", RVal::arr(vec![RVal::u(3)])), ("b", RVal::obj(vec![("ba", RVal::Null), ("z", RVal::u(70000))]))]),
        // larger seeds (above the expansion cap: their successors are judged, not expanded): builders
        // and name lookups behave differently above a few dozen members
        RVal::Obj((0..40).map(|i| (format!("k{:02}", i), RVal::u(i))).collect()),
        RVal::Arr((0..40).map(|i| if i % 3 == 0 { RVal::s("dup") } else { RVal::u(i % 5) }).collect()),
        RVal::obj(vec![("a", RVal::Obj((0..40).map(|i| (format!("k{:02}", i), RVal::u(i))).collect())), ("b", RVal::Null)]),
    ]);
    v
}

pub struct BfsResult {
    pub states: usize,
    pub transitions: u64,
    pub per_level: Vec<usize>,
    pub frontier_cut: u64,
    /// successors seen after the distinct-state counter was capped (all were still judged)
    pub uncounted: u64,
}

pub fn bfs(depth: usize, size_cap: usize, acc: &mut Acc, state_cap: usize) -> BfsResult {
    let init: Vec<Vec<u8>> = initial_states().iter().map(enc).collect();
    let mut seen: HashSet<Vec<u8>> = init.iter().cloned().collect();
    let mut frontier: Vec<(Vec<u8>, Vec<String>)> = init.into_iter().map(|b| (b, vec![])).collect();
    let mut per_level = vec![frontier.len()];
    let mut ntrans = 0u64;
    let mut cut = 0u64;
    let mut uncounted = 0u64;
    for lvl in 0..depth {
        let last = lvl + 1 == depth;
        let mut next = vec![];
        let mut new_states = 0usize;
        // the frontier is processed in slices so that only one slice's successors are in memory
        for slice in frontier.chunks(20_000) {
            let parts: Vec<(Acc, Vec<(Vec<u8>, Vec<String>)>, u64)> = slice
                .par_chunks(64)
                .map(|chunk| {
                    let cx = ctx();
                    let mut a = Acc::default();
                    let mut succ = vec![];
                    let mut cut = 0u64;
                    for (b, hist) in chunk {
                        let v = strict_dec(b).expect("state is canonical by construction");
                        let ts = transitions(&v, b, &cx);
                        for t in &ts {
                            if let Some(nb) = judge(t, &mut a, &|| json!({"initial_and_history": hist, "state": format!("{:?}", v), "state_hex": hex(b)})) {
                                if nb.len() > size_cap {
                                    cut += 1;
                                } else if last {
                                    // states of the last level are only counted, never expanded
                                    succ.push((nb, Vec::new()));
                                } else {
                                    let mut h = hist.clone();
                                    h.push(t.label.clone());
                                    succ.push((nb, h));
                                }
                            }
                        }
                    }
                    // dedupe within the chunk before handing over
                    succ.sort_by(|x, y| x.0.cmp(&y.0));
                    succ.dedup_by(|x, y| x.0 == y.0);
                    (a, succ, cut)
                })
                .collect();
            for (a, succ, c) in parts {
                ntrans += a.evaluations;
                cut += c;
                acc.merge(a);
                for (nb, h) in succ {
                    if seen.len() >= state_cap {
                        // every transition has been executed and judged; only the *count* of distinct
                        // last-level states stops here (reported as a cap)
                        if !seen.contains(&nb) {
                            uncounted += 1;
                        }
                        continue;
                    }
                    if seen.insert(nb.clone()) {
                        new_states += 1;
                        if !last {
                            next.push((nb, h));
                        }
                    }
                }
            }
        }
        per_level.push(new_states);
        frontier = next;
        if frontier.is_empty() {
            break;
        }
    }
    BfsResult { states: seen.len(), transitions: ntrans, per_level, frontier_cut: cut, uncounted }
}

// ---------------------------------------------------------------------------------------------
// stateright cross-check: the same transition function wrapped as a stateright::Model

#[derive(Clone, Debug, PartialEq, Eq, Hash)]
pub struct SrState {
    pub bytes: Vec<u8>,
    pub bad: bool,
}

pub struct SrModel {
    pub size_cap: usize,
}

thread_local! {
    static SR_CACHE: std::cell::RefCell<Option<(Vec<u8>, Vec<Option<(Vec<u8>, bool)>>)>> = const { std::cell::RefCell::new(None) };
}

fn sr_successors(b: &[u8], size_cap: usize) -> Vec<Option<(Vec<u8>, bool)>> {
    SR_CACHE.with(|c| {
        if let Some((k, v)) = &*c.borrow() {
            if k == b {
                return v.clone();
            }
        }
        let cx = ctx();
        let v = strict_dec(b).expect("canonical");
        let mut out = vec![];
        for t in transitions(&v, b, &cx) {
            let mut a = Acc::default();
            let nb = judge(&t, &mut a, &|| json!({}));
            let bad = !a.vios.is_empty();
            out.push(match nb {
                Some(nb) if nb.len() <= size_cap => Some((nb, bad)),
                _ if bad => Some((b.to_vec(), true)),
                _ => None,
            });
        }
        *c.borrow_mut() = Some((b.to_vec(), out.clone()));
        out
    })
}

impl stateright::Model for SrModel {
    type State = SrState;
    type Action = usize;
    fn init_states(&self) -> Vec<SrState> {
        initial_states().iter().map(|v| SrState { bytes: enc(v), bad: false }).collect()
    }
    fn actions(&self, s: &SrState, actions: &mut Vec<usize>) {
        if s.bad {
            return;
        }
        let n = sr_successors(&s.bytes, self.size_cap).len();
        actions.extend(0..n);
    }
    fn next_state(&self, s: &SrState, a: usize) -> Option<SrState> {
        sr_successors(&s.bytes, self.size_cap)[a].clone().map(|(bytes, bad)| SrState { bytes, bad })
    }
    fn properties(&self) -> Vec<stateright::Property<Self>> {
        // The verdict of a transition is judged when its SOURCE state is checked: stateright evaluates
        // properties on the states it dequeues, and states of the last level are generated (and
        // counted) but not dequeued, so a flag carried by the successor alone would be missed there.
        vec![stateright::Property::<Self>::always("every step canonical and equal to the tree result", |m: &SrModel, s: &SrState| {
            !s.bad && sr_successors(&s.bytes, m.size_cap).iter().all(|x| !matches!(x, Some((_, true))))
        })]
    }
}

pub fn stateright_count(depth: usize, size_cap: usize) -> (usize, bool) {
    use stateright::{Checker, Model};
    let checker = SrModel { size_cap }.checker().threads(1).target_max_depth(depth + 1).spawn_bfs().join();
    let bad = checker.discoveries().len() > 0;
    (checker.unique_state_count(), bad)
}

pub fn spaces(tier: Tier) -> Vec<Space<'static>> {
    let mut sp: Vec<Space> = vec![];
    let (depth, cap) = if tier.thorough() { (4, 64) } else { (3, 80) };
    sp.push(Space::new("bfs", 1, move |_, acc| {
        let r = bfs(depth, cap, acc, 60_000_000);
        if r.uncounted > 0 {
            acc.note("CAP: distinct-state counter stopped at 60,000,000; further last-level successors judged but not counted as states", r.uncounted);
        }
        acc.states += r.states as u64;
        acc.nontrivial += r.states as u64;
        acc.note("bfs states", r.states as u64);
        acc.note("bfs transitions", r.transitions);
        acc.note("bfs successors checked but not expanded (size cap)", r.frontier_cut);
        for (i, n) in r.per_level.iter().enumerate() {
            acc.note(&format!("bfs new states at depth {}", i), *n as u64);
        }
        acc.sample(|| json!({"initial_states": initial_states().iter().take(8).map(|v| format!("{:?}", v)).collect::<Vec<_>>(), "depth": depth, "size_cap": cap}));
    }));
    sp.push(Space::new("stateright-cross-check", 1, move |_, acc| {
        let d = 2;
        let mut tmp = Acc::default();
        let mine = bfs(d, cap, &mut tmp, 40_000_000);
        let (sr, bad) = stateright_count(d, cap);
        acc.evals(mine.transitions);
        acc.note("cross-check depth", d as u64);
        acc.note("cross-check own bfs states", mine.states as u64);
        acc.note("cross-check stateright unique states", sr as u64);
        let own_bad = !tmp.vios.is_empty();
        if bad != own_bad {
            acc.vio("MACHINERY:stateright-and-own-bfs-disagree-on-verdict", || json!({"stateright_discovery": bad, "own_violation": own_bad}));
        }
        if !own_bad && sr != mine.states {
            acc.vio("MACHINERY:stateright-and-own-bfs-disagree-on-state-count", || json!({"stateright": sr, "own": mine.states}));
        }
    }));
    sp
}

pub fn meta(tier: Tier) -> (String, serde_json::Value, Vec<String>) {
    (
        "explicit-state breadth-first search: state = canonical document bytes (deduplicated on the full bytes, no abstraction); a transition calls ONE real library function with one argument tuple drawn from the current state: concat (both orders, self), delete_by_name/index/keypath, array_insert, object_insert/delete/pick, strip_nulls, array_distinct/intersection/except, build_array, build_object (both key orders, duplicate keys), every extraction (get_by_index/name/keypath, array_values, object_each, object_keys), every item returned by Selector::select in four modes for a 12-path menu, and the two round trips. Every successor must pass the strict validator and equal the model encoder applied to the same operation on the tree. A stateright model over the same transition function is run at depth 2 and must report the same number of unique states and the same verdict. Non-trivial = every distinct reachable state.".into(),
        json!({"depth": if tier.thorough() {4} else {3}, "successor_size_cap_bytes": if tier.thorough() {64} else {80}, "initial_states": initial_states().len(), "second_operand_pool": 9, "path_menu": 12}),
        vec!["successors above the size cap are checked but not expanded (counted)".into()],
    )
}
