//! C02 — the JSON text parser accepts exactly the documented language, with standard meaning.
use crate::conv::*;
use crate::harness::*;
use crate::univ;
use refmodel::text::relaxed_json;
use refmodel::RVal;
use serde_json::json;
use std::sync::Arc;

pub fn judge(text: &[u8], acc: &mut Acc) {
    acc.eval();
    let model = relaxed_json(text);
    let got = guard(|| jsonb::parse_value(text).map(|v| from_value(&v)));
    let show = || json!({"text": String::from_utf8_lossy(text), "text_hex": refmodel::layout::hex(text)});
    match (model, got) {
        (_, Err(p)) => {
            acc.outcome("panic");
            acc.vio(&format!("parse:{}", panic_class(&p)), show);
        }
        (Ok(m), Ok(Ok(v))) => {
            acc.outcome("accept/accept");
            acc.nontrivial += 1;
            if m.value_unspecified {
                acc.unspecified += 1;
            } else if v != m.val {
                // classify the one recorded shape: an ordinary escape after an unpaired high surrogate
                let class = if text.windows(2).any(|w| w == b"\\u") && format!("{:?}", v).contains("\\\\u") { "parse:wrong-value:escape-after-unpaired-surrogate-or-literal" } else { "parse:wrong-value" };
                acc.vio(class, || json!({"input": show(), "expected": format!("{:?}", m.val), "observed": format!("{:?}", v)}));
            }
        }
        (Err(_), Ok(Err(_))) => acc.outcome("reject/reject"),
        (Ok(m), Ok(Err(e))) => {
            acc.outcome("accept/reject");
            acc.vio("parse:rejects-documented-language", || json!({"input": show(), "model_value": format!("{:?}", m.val), "err": format!("{:?}", e)}));
        }
        (Err(why), Ok(Ok(v))) => {
            acc.outcome("reject/accept");
            acc.vio("parse:accepts-outside-documented-language", || json!({"input": show(), "model_reject_reason": why, "observed": format!("{:?}", v)}));
        }
    }
    // the lazy entry point must agree for text input
    if !matches!(text.first(), Some(0x20) | Some(0x40) | Some(0x80)) {
        if let Ok(r) = guard(|| jsonb::parse_lazy_value(text).map(|l| l.to_vec())) {
            let direct = guard(|| jsonb::parse_value(text).map(|v| v.to_vec()));
            if let Ok(d) = direct {
                if r.is_ok() != d.is_ok() || (r.is_ok() && r.as_ref().ok() != d.as_ref().ok()) {
                    acc.vio("parse_lazy_value:differs-from-parse_value-on-text", show);
                }
            }
        } else {
            acc.vio("parse_lazy_value:panic", show);
        }
    }
}

const WS: [&[u8]; 11] = [b"", b" ", b"\n", b"\t", b"\r", b"\x0c", b"\\n", b"\\t", b"\\r", b"\\x0C", b"  \n"];

/// render with a whitespace chooser per slot index
fn render(v: &RVal, slot: &mut usize, ws: &dyn Fn(usize) -> &'static [u8], out: &mut Vec<u8>) {
    let mut sp = |out: &mut Vec<u8>, slot: &mut usize| {
        out.extend_from_slice(ws(*slot));
        *slot += 1;
    };
    sp(out, slot);
    match v {
        RVal::Arr(a) => {
            out.push(b'[');
            for (i, x) in a.iter().enumerate() {
                if i > 0 {
                    out.push(b',');
                }
                render(x, slot, ws, out);
            }
            sp(out, slot);
            out.push(b']');
        }
        RVal::Obj(o) => {
            out.push(b'{');
            for (i, (k, x)) in o.iter().enumerate() {
                if i > 0 {
                    out.push(b',');
                }
                sp(out, slot);
                let mut s = String::new();
                refmodel::text::print_str(k, &mut s);
                out.extend_from_slice(s.as_bytes());
                sp(out, slot);
                out.push(b':');
                render(x, slot, ws, out);
            }
            sp(out, slot);
            out.push(b'}');
        }
        x => out.extend_from_slice(refmodel::text::print(x).as_bytes()),
    }
    sp(out, slot);
}

fn count_slots(v: &RVal) -> usize {
    let mut n = 0;
    let mut out = vec![];
    render(v, &mut n, &|_| b"", &mut out);
    n
}

pub fn number_spellings() -> Vec<String> {
    let mut v: Vec<String> = [
        "0", "-0", "1", "-1", "10", "1.0", "1.50", "1e0", "1E+1", "10e-1", "0.0", "-0.0", "0e0", "0E-0", "1e+0", "1.0e1", "9007199254740993", "9007199254740992", "9223372036854775807", "9223372036854775808",
        "18446744073709551615", "18446744073709551616", "-9223372036854775808", "-9223372036854775809", "12345678901234567890", "-12345678901234567890", "1234567890123456789012345678901234567890",
        "9007199254740993.0", "9007199254740992.5", "9007199254740993e0", "1e22", "1e23", "8.5e22", "123456789012345678901234567890e-10", "0.1", "0.30000000000000004", "2.2250738585072011e-308",
        "2.2250738585072012e-308", "4.9e-324", "2.4703282292062327e-324", "2.4703282292062328e-324", "1e308", "1.7976931348623157e308", "1.7976931348623158e308", "1.7976931348623159e308", "1e309", "-1e309", "1e-400", "-1e-400",
        "1e400", "0.000000000000000000000000000000000000000000001", "100000000000000000000000", "1.0000000000000002", "1.00000000000000011102230246251565404236316680908203125", "1.00000000000000011102230246251565404236316680908203124",
        "1.00000000000000011102230246251565404236316680908203126", "5e-324", "3e-324", "0e999", "0.0e-999", "1E5", "1e05", "1e-05", "255", "256", "65535", "65536", "4294967295", "4294967296", "-128", "-129", "-32768", "-32769", "-2147483648", "-2147483649",
        // exponent without a fraction (negative, upper case), integers inside every signed width class
        "5e-1", "1e-2", "3e-1", "25E-2", "7E-2", "1E5", "-25E2", "128", "200", "-200", "-255", "-256", "-257", "32768", "40000", "-40000", "-65535", "-65536", "2147483648", "3000000000", "-3000000000", "-4294967295", "-4294967296", "-4294967297",
    ]
    .iter()
    .map(|s| s.to_string())
    .collect();
    // malformed spellings
    for s in ["01", "-01", "00", "1.", ".1", "1e", "1e+", "1e-", "+1", "-", "--1", "1.e1", "1.0.0", "1e1.0", "0x10", "1_000", "1,000", "Infinity", "-Infinity", "NaN", "1f", "1e1e1", "- 1", "1 e1", "١"] {
        v.push(s.to_string());
    }
    v
}

pub fn string_spellings() -> Vec<Vec<u8>> {
    let mut v: Vec<Vec<u8>> = vec![];
    let q = |body: &[u8]| {
        let mut s = vec![b'"'];
        s.extend_from_slice(body);
        s.push(b'"');
        s
    };
    for e in ["\\\"", "\\\\", "\\/", "\\b", "\\f", "\\n", "\\r", "\\t", "\\a", "\\v", "\\0", "\\x41", "\\'", "\\ ", "\\U0041", "\\"] {
        for ctx in ["", "a", "aa"] {
            v.push(q(format!("{}{}", ctx, e).as_bytes()));
            v.push(q(format!("{}{}", e, ctx).as_bytes()));
            v.push(q(format!("{}{}{}", ctx, e, e).as_bytes()));
        }
    }
    let his = ["D800", "d83c", "DBFF", "D83D"];
    let los = ["DC00", "df95", "DFFF", "DC8E"];
    let forms = |h: &str, braced: bool| if braced { format!("\\u{{{}}}", h) } else { format!("\\u{}", h) };
    for h in his {
        for hb in [false, true] {
            let hs = forms(h, hb);
            for l in los {
                for lb in [false, true] {
                    v.push(q(format!("{}{}", hs, forms(l, lb)).as_bytes()));
                    v.push(q(format!("x{}{}y", hs, forms(l, lb)).as_bytes()));
                    v.push(q(format!("{}{}", forms(l, lb), hs).as_bytes()));
                }
            }
            // unpaired shapes
            for tail in ["", "a", "\\n", "\\u0041", "\\u{0041}", "\\\\", "\\\"", "\\u", "\\u00", "\\u004", "\\uD800", "\\u{D800}", "\\uD800\\uDC00", "\\uZZZZ", "\\x", " ", "\\ud83c\\udf95"] {
                v.push(q(format!("{}{}", hs, tail).as_bytes()));
                v.push(q(format!("a{}{}b", hs, tail).as_bytes()));
            }
        }
    }
    for l in los {
        for lb in [false, true] {
            for tail in ["", "a", "\\u0041", "\\n", "\\uDC00"] {
                v.push(q(format!("{}{}", forms(l, lb), tail).as_bytes()));
            }
        }
    }
    for bad in ["\\u", "\\u0", "\\u00", "\\u004", "\\u{", "\\u{0041", "\\u{004}", "\\u{00411}", "\\u{}", "\\u{0041}}", "\\u 0041", "\\u+041", "\\u004g", "\\u{004g}", "\\uD8", "\\u{D8}"] {
        v.push(q(bad.as_bytes()));
        v.push(q(format!("a{}", bad).as_bytes()));
        v.push(q(format!("{}a", bad).as_bytes()));
        v.push(q(format!("{}\\\"", bad).as_bytes()));
    }
    // raw bytes inside strings: every single byte value, also as the only content
    for b in 0..=255u8 {
        v.push(q(&[b]));
        v.push(q(&[b'a', b, b'b']));
    }
    // unterminated
    for s in ["\"", "\"a", "\"\\", "\"\\\"", "\"a\\u00", "\"a\\u0041"] {
        v.push(s.as_bytes().to_vec());
    }
    v
}

const TOKENS: [&[u8]; 32] = [
    b"{", b"}", b"[", b"]", b",", b":", b"\"", b"\\", b"u", b"0", b"1", b"-", b"+", b".", b"e", b"E", b"null", b"true", b"false", b"n", b"t", b"f", b" ", b"\n", b"\x01", b"a", b"D", b"8", b"C", "é".as_bytes(), b"\xFF", b"\x80",
];

pub fn spaces(tier: Tier) -> Vec<Space<'static>> {
    let mut sp: Vec<Space> = vec![];
    // (a1) documents x whitespace in every slot
    let docs: Arc<Vec<RVal>> = Arc::new(univ::d2().iter().cloned().chain(univ::d1q().iter().filter(|v| v.all_finite()).step_by(7).cloned()).collect());
    let d1 = docs.clone();
    sp.push(Space::new("documents-x-whitespace-slots", docs.len() as u64, move |i, acc| {
        let v = &d1[i as usize];
        let slots = count_slots(v);
        for w in 0..WS.len() {
            let mut out = vec![];
            let mut s = 0;
            render(v, &mut s, &|_| WS[w], &mut out);
            judge(&out, acc);
        }
        for slot in 0..slots {
            for w in 1..WS.len() {
                let mut out = vec![];
                let mut s = 0;
                render(v, &mut s, &|k| if k == slot { WS[w] } else { b"" }, &mut out);
                judge(&out, acc);
            }
        }
        acc.sample(|| {
            let mut out = vec![];
            let mut s = 0;
            render(v, &mut s, &|k| WS[(k * 3 + 1) % WS.len()], &mut out);
            json!({"text": String::from_utf8_lossy(&out)})
        });
    }));
    // (a2) numbers in contexts
    let nums = Arc::new(number_spellings());
    let n1 = nums.clone();
    sp.push(Space::new("number-spellings-x-contexts", nums.len() as u64, move |i, acc| {
        let s = &n1[i as usize];
        for t in [s.clone(), format!("[{}]", s), format!("[{},{}]", s, s), format!("{{\"a\":{}}}", s), format!(" {} ", s), format!("[ {} ,1]", s), format!("{}{}", s, s), format!("{} {}", s, s), format!("{}]", s), format!("-{}", s)] {
            judge(t.as_bytes(), acc);
        }
    }));
    // (a3) strings
    let strs = Arc::new(string_spellings());
    let s1 = strs.clone();
    sp.push(Space::new("string-spellings-x-contexts", strs.len() as u64, move |i, acc| {
        let s = &s1[i as usize];
        judge(s, acc);
        let mut a = b"[".to_vec();
        a.extend_from_slice(s);
        a.push(b']');
        judge(&a, acc);
        let mut o = b"{".to_vec();
        o.extend_from_slice(s);
        o.extend_from_slice(b":1,\"k\":");
        o.extend_from_slice(s);
        o.push(b'}');
        judge(&o, acc);
    }));
    // string bodies: every sequence of <= 4 units over an alphabet of escapes and raw characters
    // (runs of backslashes before a quote, escapes next to escapes, raw control characters)
    {
        const UNITS: [&[u8]; 11] = [b"\\\\", b"\\\"", b"a", b"\\/", b"\\n", b"\\u0041", b"\x01", "é".as_bytes(), b"/", b"u", b"\x7f"];
        let n = UNITS.len() as u64;
        let total: u64 = (0..=4u32).map(|k| n.pow(k)).sum();
        sp.push(Space::new("string bodies: every sequence of <= 4 escape/raw units, as value and as key", total, move |idx, acc| {
            let mut i = idx;
            let mut len = 0u32;
            let mut c = 1u64;
            while i >= c {
                i -= c;
                c *= n;
                len += 1;
            }
            let mut body: Vec<u8> = vec![];
            for _ in 0..len {
                body.extend_from_slice(UNITS[(i % n) as usize]);
                i /= n;
            }
            let mut t = b"\"".to_vec();
            t.extend_from_slice(&body);
            t.push(b'"');
            judge(&t, acc);
            let mut o = b"{\"".to_vec();
            o.extend_from_slice(&body);
            o.extend_from_slice(b"\":[\"");
            o.extend_from_slice(&body);
            o.extend_from_slice(b"\",1]}");
            judge(&o, acc);
        }));
    }
    // every \uXXXX code unit in three spellings
    sp.push(Space::new("all-code-units-x-3-escape-forms", 65536 * 4, |i, acc| {
        let cu = i / 4;
        let t = match i % 4 {
            0 => format!("\"\\u{:04x}\"", cu),
            1 => format!("\"\\u{:04X}\"", cu),
            2 => format!("\"\\u{{{:04x}}}\"", cu),
            _ => format!("\"a\\u{:04X}\\u{:04x}b\"", cu, cu),
        };
        judge(t.as_bytes(), acc);
    }));
    // every surrogate pair written as two escapes (all 1024 x 1024), block by high surrogate
    sp.push(Space::new("every surrogate-pair escape (1024 high x 1024 low)", 1024, |hi, acc| {
        let h = 0xD800 + hi;
        for lo in 0..1024u64 {
            let l = 0xDC00 + lo;
            let t = if (hi + lo) % 2 == 0 { format!("\"\\u{:04x}\\u{:04X}\"", h, l) } else { format!("[\"x\\u{:04X}\\u{:04x}y\"]", h, l) };
            judge(t.as_bytes(), acc);
        }
    }));
    // every Unicode scalar value raw inside a string and as a key
    sp.push(Space::new("all-scalar-values-raw", univ::N_CHARS, |i, acc| {
        let c = univ::nth_char(i);
        if c == '"' || c == '\\' {
            return;
        }
        judge(format!("{{\"{}\":\"a{}\"}}", c, c).as_bytes(), acc);
    }));
    // duplicate keys
    sp.push(Space::new("duplicate-keys", 3 * 3 * 3 * 4, |i, acc| {
        let ks = ["a", "b", ""];
        let vs = ["1", "null", "[2]", "{\"a\":3}"];
        let (a, b, c, v) = ((i % 3) as usize, ((i / 3) % 3) as usize, ((i / 9) % 3) as usize, (i / 27) as usize);
        judge(format!("{{\"{}\":1,\"{}\":{},\"{}\":\"x\"}}", ks[a], ks[b], vs[v], ks[c]).as_bytes(), acc);
        judge(format!("[{{\"{}\":{{\"{}\":1,\"{}\":2}}}}]", ks[a], ks[b], ks[c]).as_bytes(), acc);
    }));
    // size sweep: objects of every member count 0..=300 written in descending / interleaved /
    // permuted key order, every key written twice with different values (last must win)
    sp.push(Space::new("size sweep: N-member objects with duplicate keys, 3 orders", 301 * 3, |i, acc| {
        let n = (i / 3) as usize;
        let order: Vec<usize> = match i % 3 {
            0 => (0..n).rev().collect(),
            1 => (0..n).collect(),
            _ => (0..n).map(|k| (k * 7919 + 13) % n.max(1)).collect(),
        };
        let mut t = String::from("{");
        let mut first = true;
        // every key once with value 0 ...
        for k in &order {
            if !first {
                t.push(',');
            }
            first = false;
            t.push_str(&format!("\"k{}\":0", k));
        }
        // ... then again (other order) with the value that must win
        for k in order.iter().rev() {
            if !first {
                t.push(',');
            }
            first = false;
            t.push_str(&format!("\"k{}\":{}", k, k + 1));
        }
        t.push('}');
        judge(t.as_bytes(), acc);
        let arr = format!("[{}]", (0..n).map(|k| k.to_string()).collect::<Vec<_>>().join(","));
        judge(arr.as_bytes(), acc);
    }));
    // floats: the shortest round-trip spelling of every pattern of the float pattern sets must
    // parse back to the same bits (decimal fast paths must be correctly rounded)
    sp.push(Space::new("shortest-float-spellings", 1 << 16, |i, acc| {
        for f in [f64::from_bits(i << 48), f64::from_bits((i << 48) | 0x0000_FFFF_FFFF_FFFF), f64::from_bits((i << 48) | 0x0000_5555_5555_5555)] {
            if !f.is_finite() {
                continue;
            }
            judge(format!("{:?}", f).as_bytes(), acc);
            // the same value written without exponent where that is short enough, and with extra digits
            let plain = format!("{}", f);
            if plain.len() <= 40 {
                judge(plain.as_bytes(), acc);
            }
            judge(format!("{:.17e}", f).as_bytes(), acc);
        }
    }));
    // (b) every token string up to the bound
    let l = if tier.thorough() { 6 } else { 5 };
    let nt = TOKENS.len() as u64;
    let total: u64 = (0..=l).map(|k| nt.pow(k)).sum();
    // index = block of the last two tokens to amortise bookkeeping
    let blocks = total.div_ceil(1024);
    sp.push(Space::new("token-soup", blocks, move |blk, acc| {
        for idx in (blk * 1024)..((blk + 1) * 1024).min(total) {
            let mut i = idx;
            let mut len = 0;
            let mut c = 1;
            while i >= c {
                i -= c;
                c *= nt;
                len += 1;
            }
            let mut text = Vec::with_capacity(12);
            let mut toks = [0usize; 8];
            for k in 0..len {
                toks[len - 1 - k] = (i % nt) as usize;
                i /= nt;
            }
            for k in 0..len {
                text.extend_from_slice(TOKENS[toks[k]]);
            }
            judge(&text, acc);
        }
    }));
    // well-known multi-byte sequences (byte order marks, Unicode white space and separators, a NUL
    // run, CRLF pairs) inserted at every position of a text: only JSON's four white-space bytes may
    // stand between tokens, and inside a string everything is content
    {
        const SEQS: [&[u8]; 12] = [b"\xEF\xBB\xBF", b"\xFE\xFF", b"\xFF\xFE", b"\xC2\x85", b"\xC2\xA0", b"\xE2\x80\xA8", b"\xE2\x80\xA9", b"\xE3\x80\x80", b"\xE2\x80\x8B", b"\x00\x00", b"\r\n", b"//"];
        let bases: Arc<Vec<Vec<u8>>> = Arc::new(univ::d2().iter().step_by(5).map(|v| refmodel::text::print(v).into_bytes()).chain([b"[1, 2]".to_vec(), b"{\"a\" : [true , null]}".to_vec(), b" \"x\" ".to_vec(), b"1".to_vec(), b"null".to_vec()]).collect());
        let b1 = bases.clone();
        sp.push(Space::new("multi-byte sequences (BOMs, Unicode white space, NUL run, CRLF, //) inserted at every position", bases.len() as u64, move |i, acc| {
            let t = &b1[i as usize];
            for pos in 0..=t.len() {
                for s in SEQS {
                    let mut x = t[..pos].to_vec();
                    x.extend_from_slice(s);
                    x.extend_from_slice(&t[pos..]);
                    judge(&x, acc);
                }
            }
        }));
    }
    // every one of the 256 byte values inserted at, and substituted for, every position
    let sub: Arc<Vec<Vec<u8>>> = Arc::new(univ::d2().iter().step_by(9).map(|v| refmodel::text::print(v).into_bytes()).chain([b"[1, 2]".to_vec(), b"{\"a\" : [true , null]}".to_vec(), b" \"x\" ".to_vec()]).collect());
    let sub1 = sub.clone();
    sp.push(Space::new("all-256-byte insertions and substitutions at every position", sub.len() as u64, move |i, acc| {
        let t = &sub1[i as usize];
        for pos in 0..=t.len() {
            for b in 0..=255u8 {
                let mut x = t[..pos].to_vec();
                x.push(b);
                x.extend_from_slice(&t[pos..]);
                judge(&x, acc);
                if pos < t.len() && b != t[pos] {
                    let mut y = t.clone();
                    y[pos] = b;
                    judge(&y, acc);
                }
            }
        }
    }));
    // (c) single-token corruptions of well-formed renderings
    let base: Arc<Vec<Vec<u8>>> = Arc::new({
        let mut b: Vec<Vec<u8>> = univ::d2().iter().map(|v| refmodel::text::print(v).into_bytes()).collect();
        for s in ["[1.5e+3,\"a\\u0041\\n\",{\"k\":[true,false,null]}]", "{\"a\":{\"b\":[-0.0,1E2]},\"c\":\"\\uD83C\\uDF95\"}", "\"\\u{0041}\\uD800\"", " [ 1 , 2 ] ", "\\n[1]\\t", "18446744073709551616", "-9223372036854775808"] {
            b.push(s.as_bytes().to_vec());
        }
        b
    });
    let b1 = base.clone();
    sp.push(Space::new("single-token-corruptions", base.len() as u64, move |i, acc| {
        let t = &b1[i as usize];
        for pos in 0..=t.len() {
            for tok in TOKENS.iter() {
                // insertion
                let mut x = t[..pos].to_vec();
                x.extend_from_slice(tok);
                x.extend_from_slice(&t[pos..]);
                judge(&x, acc);
                // substitution
                if pos < t.len() {
                    let mut y = t[..pos].to_vec();
                    y.extend_from_slice(tok);
                    y.extend_from_slice(&t[pos + 1..]);
                    judge(&y, acc);
                }
            }
            if pos < t.len() {
                let mut d = t.clone();
                d.remove(pos);
                judge(&d, acc);
                if pos + 1 < t.len() {
                    let mut s = t.clone();
                    s.swap(pos, pos + 1);
                    judge(&s, acc);
                }
            }
        }
    }));
    sp
}

pub fn meta(tier: Tier) -> (String, serde_json::Value, Vec<String>) {
    (
        "LANG: (a) every document of the universe rendered with each of 11 whitespace forms (incl. form feed and the backslash-escaped forms) in every slot at once and in each slot singly; ~100 number spellings (integer/float classification at 2^53, 2^63, 2^64, halfway cases needing correct rounding, subnormals, overflow to infinity, malformed forms) in 10 contexts; every escape spelling incl. surrogate pairs in all plain/braced combinations, lone/reversed/unfinished surrogates followed by every kind of continuation, every byte 0..255 raw inside a string; every \\uXXXX code unit (65,536) in three escape forms; every Unicode scalar value raw; duplicate keys. (b) EVERY token string up to the length bound over a 32-token alphabet. (c) every single-token insertion, substitution, deletion and adjacent transposition at every position of every well-formed rendering. Oracle: the independent relaxed parser (RFC 8259 + exactly the listed relaxations) decides accept/reject and the value (integers exact and of the stated kind, floats bit-equal to the correctly rounded parse, last duplicate key wins); never a panic. Non-trivial = accepted text.".into(),
        json!({"token_alphabet": 32, "token_soup_max_len": if tier.thorough() {6} else {5}, "unspecified": "the value of a lone surrogate written in the braced form"}),
        vec!["Rust std's str::parse::<f64> is correctly rounded".into()],
    )
}
