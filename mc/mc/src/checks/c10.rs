//! C10 — decoding untrusted bytes never panics and never yields ill-formed strings.
use crate::conv::*;
use crate::harness::*;
use crate::isolate;
use crate::univ;
use refmodel::layout::{enc, hex, unhex};
use refmodel::text::relaxed_json;
use refmodel::RVal;
use serde_json::json;
use std::sync::Arc;

pub const MARK: [u8; 16] = [0x00, 0x01, 0x0F, 0x10, 0x1F, 0x20, 0x2F, 0x30, 0x40, 0x50, 0x5F, 0x60, 0x70, 0x7F, 0x80, 0xFF];

#[derive(Clone, Debug)]
pub enum Fault {
    Trunc(usize),
    Flip(usize, u8),
    Sub(usize, u8),
    Del(usize),
    Ins(usize, u8),
    Word(usize, u32),
}

impl Fault {
    pub fn apply(&self, d: &[u8]) -> Vec<u8> {
        let mut v = d.to_vec();
        match *self {
            Fault::Trunc(n) => v.truncate(n),
            Fault::Flip(o, b) => v[o] ^= 1 << b,
            Fault::Sub(o, x) => v[o] = x,
            Fault::Del(o) => {
                v.remove(o);
            }
            Fault::Ins(o, x) => v.insert(o, x),
            Fault::Word(o, w) => v[o..o + 4].copy_from_slice(&w.to_be_bytes()),
        }
        v
    }
}

/// the complete single-fault alphabet for a byte string
pub fn faults(d: &[u8], all_bytes: bool) -> Vec<Fault> {
    let mut out = vec![];
    for n in 0..d.len() {
        out.push(Fault::Trunc(n));
    }
    for o in 0..d.len() {
        for b in 0..8 {
            out.push(Fault::Flip(o, b));
        }
        if all_bytes {
            for x in 0..=255u8 {
                if x != d[o] {
                    out.push(Fault::Sub(o, x));
                }
            }
        } else {
            for x in MARK {
                if x != d[o] {
                    out.push(Fault::Sub(o, x));
                }
            }
        }
        out.push(Fault::Del(o));
    }
    for o in 0..=d.len() {
        for x in MARK {
            out.push(Fault::Ins(o, x));
        }
    }
    for o in 0..d.len().saturating_sub(3) {
        let w = u32::from_be_bytes(d[o..o + 4].try_into().unwrap());
        let ty = w & 0xE000_0000;
        let n = w & 0x1FFF_FFFF;
        let mut news: Vec<u32> = vec![];
        for c in [0, 1, n.wrapping_sub(1) & 0x1FFF_FFFF, (n + 1) & 0x1FFF_FFFF, (2 * n) & 0x1FFF_FFFF, 0xFFFF, 0x00FF_FFFF, 0x1FFF_FFFF] {
            news.push(ty | c);
        }
        for t in 0..8u32 {
            news.push((t << 29) | n);
        }
        let len = w & 0x0FFF_FFFF;
        for nib in 0..16u32 {
            news.push((nib << 28) | len);
        }
        let top = w & 0xF000_0000;
        let mut lens = vec![0, 1, len.wrapping_sub(1) & 0x0FFF_FFFF, (len + 1) & 0x0FFF_FFFF, 0x0FFF_FFFF, 0xFFFF, 0x1_0000];
        if d.len() > 256 {
            // lengths around every multiple of 256 that still fits in the document
            let mut l = 255u32;
            while (l as usize) < d.len() + 16 {
                lens.extend((l..l + 12).map(|x| x & 0x0FFF_FFFF));
                l += 256;
            }
        }
        for l in lens {
            news.push(top | l);
        }
        news.sort();
        news.dedup();
        for x in news {
            if x != w {
                out.push(Fault::Word(o, x));
            }
        }
    }
    out
}

/// the oracle for one arbitrary byte string
pub fn judge_bytes(x: &[u8], acc: &mut Acc, must_err: bool, ctx: &dyn Fn() -> serde_json::Value) {
    acc.eval();
    for (name, r) in [
        ("parse_jsonb", guard(|| jsonb::parse_jsonb(x).map(|v| value_strings_wellformed(&v)))),
        ("from_slice", guard(|| jsonb::from_slice(x).map(|v| value_strings_wellformed(&v)))),
    ] {
        match r {
            Err(p) => {
                acc.outcome("panic");
                acc.vio(&format!("{}:{}", name, panic_class(&p)), || json!({"ctx": ctx(), "bytes": hex(x)}));
            }
            Ok(Err(_)) => acc.outcome("err"),
            Ok(Ok(wf)) => {
                acc.outcome("ok");
                if !wf {
                    acc.vio(&format!("{}:returns-ill-formed-utf8-string", name), || json!({"ctx": ctx(), "bytes": hex(x)}));
                }
                if must_err {
                    acc.vio(&format!("{}:accepts-proper-prefix-of-valid-encoding", name), || json!({"ctx": ctx(), "bytes": hex(x)}));
                }
            }
        }
    }
}

/// text clause: valid JSON text not beginning with a space must be decoded to what it denotes
pub fn judge_text(x: &[u8], acc: &mut Acc) {
    if x.first() == Some(&b' ') || x.is_empty() {
        return;
    }
    let Ok(m) = relaxed_json(x) else { return };
    acc.eval();
    acc.nontrivial += 1;
    match guard(|| jsonb::from_slice(x).map(|v| from_value(&v))) {
        Err(p) => acc.vio(&format!("from_slice-text:{}", panic_class(&p)), || json!({"text": String::from_utf8_lossy(x)})),
        Ok(Err(e)) => acc.vio("from_slice-text:rejects-valid-json-text", || json!({"text": String::from_utf8_lossy(x), "err": format!("{:?}", e)})),
        Ok(Ok(v)) => {
            if !m.value_unspecified && v != m.val {
                acc.outcome("text-misread");
                acc.vio("from_slice-text:misread-as-binary-or-wrong-value", || json!({"text": String::from_utf8_lossy(x), "expected": format!("{:?}", m.val), "observed": format!("{:?}", v)}));
            } else {
                acc.outcome("text-ok");
            }
        }
    }
}

fn corpus(tier: Tier) -> Arc<Vec<Vec<u8>>> {
    let mut c: Vec<Vec<u8>> = univ::d2().iter().map(enc).collect();
    let _ = tier;
    c.extend(univ::d1q().iter().map(enc));
    // larger documents: rewritten lengths and counts need room to be believed
    let o100 = RVal::Str("o".repeat(100));
    let big = [
        RVal::Arr(vec![RVal::Str("o".repeat(300))]),
        RVal::Arr(vec![RVal::u(70000), RVal::Str("x".repeat(280)), RVal::f(1.5)]),
        RVal::Arr((0..20).map(|i| RVal::u(i * 1000)).chain([RVal::Str("é".repeat(140))]).collect()),
        RVal::Arr(vec![o100.clone(), o100.clone(), o100.clone(), RVal::i(-70000)]),
        RVal::Obj((0..18).map(|i| (format!("key{:02}", i), RVal::Str("v".repeat(12)))).collect()),
        RVal::obj(vec![("é", RVal::Str("ü".repeat(150))), ("ü", RVal::u(1 << 40))]),
        RVal::Arr(vec![RVal::Arr(vec![RVal::u(1 << 33), RVal::Str("n".repeat(270))]), RVal::Null]),
    ];
    c.extend(big.iter().map(enc));
    // tag-like payloads: bytes inside payloads that look like headers, entry words and type tags
    c.extend(refmodel::gen::tagv_relation_docs().iter().map(enc));
    c.sort();
    c.dedup();
    Arc::new(c)
}

fn text_corpus(tier: Tier) -> Vec<Vec<u8>> {
    let mut out: Vec<Vec<u8>> = vec![];
    for v in univ::d2().iter().chain(univ::d1q().iter()) {
        if v.all_finite() {
            out.push(refmodel::text::print(v).into_bytes());
        }
    }
    // every D2 text and a few header-like scalars followed by each kind of trailing white space, and in
    // the CRLF / TAB spelling (valid JSON text stays text whatever white space surrounds its tokens)
    for v in univ::d2().iter().step_by(if tier.thorough() { 1 } else { 3 }) {
        if v.all_finite() {
            out.push(refmodel::text::print_styled(v, 3).into_bytes());
        }
    }
    for base in ["12345678", "\"2024-01-01\"", "\"abcDefgh\"", "[1, 2, 3]", "true", "-1234567", "{\"a\":1}", "1.5e300", "null"] {
        for tail in ["\r\n", "\r", "\n", "\t", " ", "\n\n", " \r\n ", "\t\t"] {
            out.push(format!("{}{}", base, tail).into_bytes());
        }
    }
    // digit strings of 7, 8, 9, 12 characters
    let digs: &[u8] = if tier.thorough() { b"0123456789" } else { b"1259" };
    for len in [7usize, 8, 9, 12] {
        let n = digs.len().pow(len.min(if tier.thorough() { 8 } else { 9 }) as u32);
        for i in 0..n {
            let mut j = i;
            let mut s = vec![b'1'; len];
            for k in 0..len.min(if tier.thorough() { 8 } else { 9 }) {
                s[len - 1 - k] = digs[j % digs.len()];
                j /= digs.len();
            }
            if s[0] == b'0' {
                continue;
            }
            out.push(s.clone());
            if len <= 8 {
                let mut neg = vec![b'-'];
                neg.extend_from_slice(&s[..len - 1]);
                out.push(neg);
            }
        }
    }
    // strings / arrays whose 5th..8th bytes look like entry words
    for first in [&b"\"abc"[..], b"\"123", b"[1,2", b"[\"a\"", b"-1.5", b"1e10", b"1.25"] {
        for b5 in 0x20u8..0x7F {
            for tail in [&b"xyz"[..], b"\x20\x20\x20", b"000", b"AAAAAAAA"] {
                let mut s = first.to_vec();
                s.push(b5);
                s.extend_from_slice(tail);
                // close the token so that some of these are valid JSON
                for close in [&b"\""[..], b"]", b"\"]", b""] {
                    let mut t = s.clone();
                    t.extend_from_slice(close);
                    out.push(t);
                }
            }
        }
    }
    out.sort();
    out.dedup();
    out
}

pub fn worker(case: &str) -> String {
    let x = unhex(case);
    let mut acc = Acc::default();
    judge_bytes(&x, &mut acc, false, &|| json!({}));
    let vios: Vec<String> = acc.vios.keys().cloned().collect();
    format!("{}", json!({"vios": vios}))
}

pub fn spaces(tier: Tier) -> Vec<Space<'static>> {
    let mut sp: Vec<Space> = vec![];
    let c = corpus(tier);
    let c1 = c.clone();
    let all_bytes = tier.thorough();
    sp.push(Space::new("single-faults", c.len() as u64, move |i, acc| {
        let d = &c1[i as usize];
        let fs = faults(d, all_bytes);
        acc.nontrivial += fs.len() as u64;
        for f in &fs {
            let x = f.apply(d);
            judge_bytes(&x, acc, matches!(f, Fault::Trunc(_)), &|| json!({"doc": hex(d), "fault": format!("{:?}", f)}));
        }
        acc.sample(|| json!({"doc": hex(d), "n_faults": fs.len(), "faults": fs.iter().step_by(97).map(|f| format!("{:?}", f)).collect::<Vec<_>>()}));
    }));
    // deviation 2: every ordered pair of faults on the short documents
    let maxlen = if tier.thorough() { 24 } else { 16 };
    let short: Arc<Vec<Vec<u8>>> = Arc::new(c.iter().filter(|d| d.len() <= maxlen).cloned().collect());
    let s1 = short.clone();
    // one index per (doc, first fault)
    let mut index: Vec<(usize, usize)> = vec![];
    for (di, d) in short.iter().enumerate() {
        for fi in 0..faults(d, false).len() {
            index.push((di, fi));
        }
    }
    let index = Arc::new(index);
    let idx1 = index.clone();
    sp.push(Space::new("fault-pairs", index.len() as u64, move |i, acc| {
        let (di, fi) = idx1[i as usize];
        let d = &s1[di];
        let f1 = &faults(d, false)[fi];
        let x1 = f1.apply(d);
        let f2s = faults(&x1, false);
        acc.nontrivial += f2s.len() as u64;
        for f2 in &f2s {
            let x2 = f2.apply(&x1);
            judge_bytes(&x2, acc, false, &|| json!({"doc": hex(d), "faults": [format!("{:?}", f1), format!("{:?}", f2)]}));
        }
    }));
    // raw bytes
    sp.push(Space::new("raw-len0-3", 1 + 256 + 65536 + (1 << 24), |i, acc| {
        let mut b = [0u8; 3];
        let (len, v) = if i == 0 { (0, 0) } else if i < 257 { (1, i - 1) } else if i < 257 + 65536 { (2, i - 257) } else { (3, i - 257 - 65536) };
        for k in 0..len {
            b[k] = (v >> (8 * (len - 1 - k))) as u8;
        }
        judge_bytes(&b[..len], acc, false, &|| json!({}));
        judge_text(&b[..len], acc);
    }));
    // structured strings: header x entry words x payload
    let headers: Vec<u32> = {
        let mut h = vec![];
        for t in [0x2000_0000u32, 0x4000_0000, 0x8000_0000, 0x0000_0000, 0x6000_0000, 0xA000_0000, 0xC000_0000, 0xE000_0000] {
            for c in [0u32, 1, 2, 3] {
                h.push(t | c);
            }
        }
        h
    };
    let entries: Vec<u32> = {
        let mut e = vec![];
        for t in 0..8u32 {
            for l in [0u32, 1, 2, 9] {
                e.push((t << 28) | l);
            }
        }
        e.push(0x9000_0001);
        e.push(0xD000_0004);
        e
    };
    let (ne, nh) = (entries.len() as u64, headers.len() as u64);
    let (h1, e1) = (headers.clone(), entries.clone());
    sp.push(Space::new("structured-header-x-2-entries-x-payload", nh * ne * ne * 16 * 6, move |i, acc| {
        let plen = [0usize, 1, 2, 4, 9, 12][(i % 6) as usize];
        let fill = MARK[((i / 6) % 16) as usize];
        let e2 = e1[((i / 96) % ne) as usize];
        let e1_ = e1[((i / 96 / ne) % ne) as usize];
        let h = h1[(i / 96 / ne / ne) as usize];
        let mut x = vec![];
        x.extend_from_slice(&h.to_be_bytes());
        x.extend_from_slice(&e1_.to_be_bytes());
        x.extend_from_slice(&e2.to_be_bytes());
        // payload: a number-tag-like first byte followed by fill
        for k in 0..plen {
            x.push(if k == 0 { fill & 0xF0 } else { fill });
        }
        acc.nontrivial += 1;
        judge_bytes(&x, acc, false, &|| json!({}));
    }));
    // text clause
    let texts = Arc::new(text_corpus(tier));
    let t1 = texts.clone();
    sp.push(Space::new("text-fallback", texts.len() as u64, move |i, acc| {
        let x = &t1[i as usize];
        judge_bytes(x, acc, false, &|| json!({"text": String::from_utf8_lossy(x)}));
        judge_text(x, acc);
        acc.sample(|| json!({"text": String::from_utf8_lossy(x)}));
    }));
    // token soup of JSON-text tokens through the binary-first entry points (text fallback path)
    const TT: [&[u8]; 16] = [b"\"", b"\\", b"n", b"u", b"0", b"1", b"[", b"]", b"{", b"}", b":", b",", b"a", b"\xff", b"\xc3", b" "];
    sp.push(Space::new("text-token-soup<=5 via from_slice", (0..=5u32).map(|k| 16u64.pow(k)).sum(), |mut i, acc| {
        let mut len = 0;
        let mut c = 1u64;
        while i >= c {
            i -= c;
            c *= 16;
            len += 1;
        }
        let mut x = vec![];
        for _ in 0..len {
            x.extend_from_slice(TT[(i % 16) as usize]);
            i /= 16;
        }
        judge_bytes(&x, acc, false, &|| json!({}));
        judge_text(&x, acc);
    }));
    // giant counts in crash-isolated workers (allocation failure would abort the process)
    // escapes with one digit position holding any byte value (not hex, not ASCII, a quote, a
    // backslash): whatever the decoders make of such bytes, they do not panic
    sp.push(Space::new("text-like bytes: a \\u escape with every byte value in each digit position", 3 * 4 * 256, |i, acc| {
        let base: &[u8; 4] = [b"ffff", b"0041", b"d83d"][(i / 1024) as usize];
        let pos = ((i / 256) % 4) as usize;
        let b = (i % 256) as u8;
        let mut digits = *base;
        digits[pos] = b;
        for (pre, post) in [(&b"\"\\u"[..], &b"\""[..]), (&b"[\"x\\u"[..], &b"\\udc00\"]"[..]), (&b"{\"\\u{"[..], &b"}\":1}"[..])] {
            let mut x = pre.to_vec();
            x.extend_from_slice(&digits);
            x.extend_from_slice(post);
            judge_bytes(&x, acc, false, &|| json!({"text": String::from_utf8_lossy(&x)}));
            judge_text(&x, acc);
        }
    }));
    // every \\uXXXX code unit, lower- and upper-case hex, through the text fallback
    sp.push(Space::new("text fallback: every code-unit escape in lower- and upper-case hex", 65536, |cu, acc| {
        judge_text(format!("\"\\u{:04x}\"", cu).as_bytes(), acc);
        judge_text(format!("[\"x\\u{:04X}\",1]", cu).as_bytes(), acc);
    }));
    // escape sequences by surrogate class, through the text fallback: every sequence of <= 3 escapes
    // over {first/last high surrogate, first/last low surrogate, BMP, U+FFFF, each of the eight short escapes, raw characters}
    {
        const ESC: [&str; 19] = ["\\ud800", "\\uDBFF", "\\udc00", "\\uDFFF", "\\u0041", "\\uffff", "\\n", "a", "\\ud83d", "u", " ", "-", "\\/", "\\b", "\\f", "\\r", "\\t", "\\\"", "\\\\"];
        let n = ESC.len() as u64;
        let total: u64 = (0..=3u32).map(|k| n.pow(k)).sum();
        sp.push(Space::new("text fallback: every sequence of <= 3 escapes by surrogate class, as value and as key", total, move |idx, acc| {
            let mut i = idx;
            let mut len = 0u32;
            let mut c = 1u64;
            while i >= c {
                i -= c;
                c *= n;
                len += 1;
            }
            let mut body = String::new();
            for _ in 0..len {
                body.push_str(ESC[(i % n) as usize]);
                i /= n;
            }
            judge_text(format!("\"{}\"", body).as_bytes(), acc);
            judge_text(format!("{{\"{}\":[\"{}\"]}}", body, body).as_bytes(), acc);
        }));
    }
    // proper prefixes of encodings whose entry length field has its top bit set: the 48 shortest and the
    // 48 longest prefixes (the ones in between differ from these only in how much of the payload is there)
    sp.push(Space::new("prefixes of encodings with a payload of more than 2^27 bytes (48 shortest, 48 longest)", crate::checks::scale::N_HUGE + 1, |i, acc| {
        let bytes = if i < crate::checks::scale::N_HUGE { crate::checks::scale::huge_doc(i).bytes } else { refmodel::layout::enc(&RVal::Str("z".repeat(1 << 27))) };
        let n = bytes.len();
        for p in (0..48).chain(n - 48..n) {
            acc.eval();
            acc.nontrivial += 1;
            for (name, r) in [("parse_jsonb", guard(|| jsonb::parse_jsonb(&bytes[..p]).is_ok())), ("from_slice", guard(|| jsonb::from_slice(&bytes[..p]).is_ok()))] {
                match r {
                    Ok(false) => acc.outcome("err"),
                    Ok(true) => acc.vio(&format!("{}:accepts-proper-prefix-of-valid-encoding", name), || json!({"doc": i, "encoding_length": n, "prefix_length": p, "first_bytes": hex(&bytes[..p.min(24)])})),
                    Err(pn) => acc.vio(&format!("{}:{}", name, panic_class(&pn)), || json!({"doc": i, "encoding_length": n, "prefix_length": p})),
                }
            }
        }
    }));
    sp.push(Space::new("giant-counts-isolated", 1, move |_, acc| {
        let mut cases = vec![];
        for h in [0x9FFF_FFFFu32, 0x5FFF_FFFF, 0x8100_0000, 0x4100_0000, 0x80FF_FFFF, 0x40FF_FFFF, 0x9000_0000, 0x5000_0000] {
            for tail in [&[][..], &[0, 0, 0, 0], &[0x10, 0, 0, 1, 0x61], &[0x50, 0, 0, 4, 0x80, 0, 0, 0]] {
                let mut x = h.to_be_bytes().to_vec();
                x.extend_from_slice(tail);
                cases.push(hex(&x));
            }
        }
        let res = isolate::run_cases("c10", &cases, std::time::Duration::from_secs(60), false);
        for (c, r) in cases.iter().zip(res) {
            acc.eval();
            acc.nontrivial += 1;
            match r {
                Some(isolate::CaseOutcome::Done(s)) => {
                    acc.outcome("isolated-done");
                    if let Ok(v) = serde_json::from_str::<serde_json::Value>(&s) {
                        for k in v["vios"].as_array().cloned().unwrap_or_default() {
                            acc.vio(k.as_str().unwrap_or("?"), || json!({"bytes": c}));
                        }
                    }
                }
                Some(isolate::CaseOutcome::Died { signal, code, stderr_tail }) => {
                    acc.outcome("isolated-died");
                    let kind = if stderr_tail.contains("memory allocation") { "allocation-failure" } else if stderr_tail.contains("overflowed its stack") { "stack-overflow" } else { "abort" };
                    acc.vio(&format!("decode:process-abort:{}", kind), || json!({"bytes": c, "signal": signal, "code": code, "stderr": stderr_tail}));
                }
                Some(isolate::CaseOutcome::TimedOut) => acc.vio("decode:hang", || json!({"bytes": c})),
                None => {}
            }
        }
    }));
    if tier.thorough() {
        sp.push(Space::new("raw-all-4-byte-strings", 1 << 16, |b, acc| {
            for lo in 0..(1u32 << 16) {
                let w = ((b as u32) << 16) | lo;
                let x = w.to_be_bytes();
                for (name, r) in [("parse_jsonb", guard(|| jsonb::parse_jsonb(&x).map(|v| value_strings_wellformed(&v)))), ("from_slice", guard(|| jsonb::from_slice(&x).map(|v| value_strings_wellformed(&v))))] {
                    match r {
                        Err(p) => acc.vio(&format!("{}:{}", name, panic_class(&p)), || json!({"bytes": hex(&x)})),
                        Ok(Ok(false)) => acc.vio(&format!("{}:returns-ill-formed-utf8-string", name), || json!({"bytes": hex(&x)})),
                        _ => {}
                    }
                }
                if !matches!(x[0], 0x20 | 0x40 | 0x80) && (x[0] == b'[' || x[0] == b'{' || x[0] == b'"' || x[0] == b'-' || x[0].is_ascii_digit() || x == *b"null" || x == *b"true") {
                    judge_text(&x, acc);
                }
            }
            acc.evals(1 << 16);
        }));
    }
    sp
}

pub fn meta(tier: Tier) -> (String, serde_json::Value, Vec<String>) {
    (
        "FAULT: for every corpus document (encodings of D2 and D1q) every fault of the alphabet at every offset: truncation to every proper prefix (must be Err), each bit flip, each byte substituted by marker bytes (thorough: all 255 other values), each byte deleted, each marker byte inserted at each offset, each 4-byte window rewritten as a header (8 counts, 8 types) or an entry word (16 type nibbles, 5 lengths); deviation 2: every ordered pair of faults on the short documents. RAW: every byte string of length <=3 (thorough: all 2^32 4-byte strings), structured header x entry x entry x payload strings. TEXT: every rendering of D2/D1q plus digit strings of 7/8/9/12 characters and texts whose 5th byte is every printable character: from_slice must return what the text denotes. Giant counts run in crash-isolated workers. Oracle: Ok or Err, never a panic/abort; every string and key of an Ok value is valid UTF-8. Non-trivial = every faulted input (distinct fault/offset).".into(),
        json!({"single_faults": if tier.thorough() {"all byte values"} else {"16 marker bytes"}, "pair_doc_max_len": if tier.thorough() {24} else {16}, "corpus": "D2 + D1q"}),
        vec!["allocation sizes are not judged unless a worker actually dies".into()],
    )
}
