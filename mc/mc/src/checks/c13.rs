//! C13 — array set functions are multiset operations over identical elements.
use crate::harness::*;
use refmodel::layout::{enc, hex, strict_dec};
use refmodel::ops;
use refmodel::{RNum, RVal};
use serde_json::json;
use std::sync::Arc;

fn alphabet() -> Vec<RVal> {
    vec![
        RVal::u(1),
        RVal::Num(RNum::I(1)),
        RVal::f(1.0),
        RVal::s("a"),
        RVal::Null,
        RVal::arr(vec![RVal::u(1)]),
        RVal::arr(vec![RVal::f(1.0)]),
        RVal::obj(vec![("a", RVal::u(1))]),
        // different kinds, identical payload bytes: the string "P\u{1}" and the number 1 (50 01),
        // the string "@\0\0\0" and the empty object (40 00 00 00)
        RVal::s("P\u{1}"),
        RVal::s("@\u{0}\u{0}\u{0}"),
        RVal::obj(vec![]),
        // payloads that need the 2nd byte of the length field
        RVal::Str("L".repeat(300)),
        RVal::arr(vec![RVal::Str("M".repeat(256))]),
    ]
}

fn universe(maxlen: usize) -> Vec<RVal> {
    let al = alphabet();
    let n = al.len();
    let mut out = vec![];
    for len in 0..=maxlen {
        for idx in 0..n.pow(len as u32) {
            let mut j = idx;
            let mut v = vec![];
            for _ in 0..len {
                v.push(al[j % n].clone());
                j /= n;
            }
            v.reverse();
            out.push(RVal::Arr(v));
        }
    }
    // non-array inputs (count as one-element lists)
    for x in &al {
        if !matches!(x, RVal::Arr(_)) {
            out.push(x.clone());
        }
    }
    out.push(RVal::obj(vec![]));
    out.push(RVal::obj(vec![("a", RVal::f(1.0))]));
    out
}

fn call(name: &str, f: impl FnOnce(&mut Vec<u8>) -> Result<(), jsonb::Error>, expect: &RVal, acc: &mut Acc, ctx: &dyn Fn() -> serde_json::Value) -> Option<RVal> {
    acc.eval();
    let mut buf = Vec::new();
    match guard(|| f(&mut buf)) {
        Err(p) => {
            acc.vio(&format!("{}:{}", name, panic_class(&p)), ctx);
            None
        }
        Ok(Err(e)) => {
            acc.vio(&format!("{}:error-on-valid-input", name), || json!({"ctx": ctx(), "err": format!("{:?}", e)}));
            None
        }
        Ok(Ok(())) => {
            if buf != enc(expect) {
                acc.vio(&format!("{}:differs-from-multiset-model", name), || json!({"ctx": ctx(), "expected": format!("{:?}", expect), "observed_hex": hex(&buf), "observed": format!("{:?}", strict_dec(&buf))}));
            }
            match strict_dec(&buf) {
                Ok(v) => Some(v),
                Err(e) => {
                    acc.vio(&format!("{}:result-not-canonical", name), || json!({"ctx": ctx(), "why": e, "observed_hex": hex(&buf)}));
                    None
                }
            }
        }
    }
}

pub fn spaces(tier: Tier) -> Vec<Space<'static>> {
    let vals = Arc::new(universe(if tier.thorough() { 4 } else { 3 }));
    let bytes: Arc<Vec<Vec<u8>>> = Arc::new(vals.iter().map(enc).collect());
    let n = vals.len();
    let mut sp: Vec<Space> = vec![];
    let (v1, b1) = (vals.clone(), bytes.clone());
    sp.push(Space::new("distinct", n as u64, move |i, acc| {
        let i = i as usize;
        let a = &v1[i];
        let ctx = || json!({"a": format!("{:?}", a)});
        let exp = ops::array_distinct(a);
        acc.nontrivial += 1;
        if let Some(d) = call("distinct", |buf| jsonb::array_distinct(&b1[i], buf), &exp, acc, &ctx) {
            // idempotence on the implementation's own output
            let db = enc(&d);
            let mut again = Vec::new();
            if let Ok(Ok(())) = guard(|| jsonb::array_distinct(&db, &mut again)) {
                if again != db {
                    acc.vio("distinct:not-idempotent", || json!({"a": format!("{:?}", a), "once": hex(&db), "twice": hex(&again)}));
                }
            }
        }
    }));
    let (v2, b2) = (vals.clone(), bytes.clone());
    sp.push(Space::new("pairs", n as u64, move |i, acc| {
        let i = i as usize;
        let a = &v2[i];
        for j in 0..n {
            let b = &v2[j];
            let ctx = || json!({"a": format!("{:?}", a), "b": format!("{:?}", b)});
            let ei = ops::array_intersection(a, b);
            let ee = ops::array_except(a, b);
            let eo = ops::array_overlap(a, b);
            if let (RVal::Arr(x), RVal::Arr(y)) = (a, b) {
                if x.len() >= 2 && y.len() >= 1 {
                    acc.nontrivial += 1;
                }
            }
            let ri = call("intersection", |buf| jsonb::array_intersection(&b2[i], &b2[j], buf), &ei, acc, &ctx);
            let re = call("except", |buf| jsonb::array_except(&b2[i], &b2[j], buf), &ee, acc, &ctx);
            acc.eval();
            let ro = match guard(|| jsonb::array_overlap(&b2[i], &b2[j])) {
                Err(p) => {
                    acc.vio(&format!("overlap:{}", panic_class(&p)), &ctx);
                    None
                }
                Ok(Err(e)) => {
                    acc.vio("overlap:error-on-valid-input", || json!({"ctx": ctx(), "err": format!("{:?}", e)}));
                    None
                }
                Ok(Ok(o)) => {
                    acc.outcome(if o { "overlap-true" } else { "overlap-false" });
                    if o != eo {
                        acc.vio("overlap:differs-from-multiset-model", || json!({"ctx": ctx(), "expected": eo, "observed": o}));
                    }
                    Some(o)
                }
            };
            // algebraic laws on the implementation's own outputs
            if let (Some(RVal::Arr(ri)), Some(RVal::Arr(re))) = (&ri, &re) {
                let mut all: Vec<RVal> = ri.iter().chain(re.iter()).cloned().collect();
                let mut orig = ops::as_list(a);
                all.sort();
                orig.sort();
                if all != orig {
                    acc.vio("laws:intersection+except-not-a-partition-of-first-list", || json!({"ctx": ctx(), "intersection": format!("{:?}", ri), "except": format!("{:?}", re)}));
                }
                if let Some(o) = ro {
                    if o != !ri.is_empty() {
                        acc.vio("laws:overlap-not-iff-intersection-nonempty", || json!({"ctx": ctx(), "overlap": o, "intersection": format!("{:?}", ri)}));
                    }
                }
            }
        }
        acc.sample(|| json!({"a": format!("{:?}", a), "b": format!("{:?}", v2[(i * 5 + 1) % n])}));
    }));
    // the same operands in four forms: the model encoder's bytes, the bytes jsonb's own encoder
    // produces for the parsed text, the JSON text, and the text with every string spelled in \u escapes
    {
        let al: Vec<RVal> = vec![
            RVal::u(0), RVal::u(1), RVal::f(1.0), RVal::i(-1), RVal::f(0.0), RVal::s("a"), RVal::s("\u{20000}"), RVal::s("\u{10FFFF}"), RVal::s("💎"), RVal::s(""), RVal::Null,
            RVal::arr(vec![RVal::u(0)]), RVal::arr(vec![RVal::f(1.0)]), RVal::obj(vec![("a", RVal::u(0))]), RVal::obj(vec![("\u{20000}", RVal::s("\u{30000}"))]),
            // keys whose byte order differs from their length order (a producer with another key order shows)
            RVal::obj(vec![("aa", RVal::u(1)), ("b", RVal::u(2))]),
            // two different objects that look alike when keys are written without escaping
            RVal::obj(vec![("a", RVal::u(1)), ("b", RVal::u(2))]),
            RVal::obj(vec![("a\":1,\"b", RVal::u(2))]),
        ];
        let mut docs: Vec<RVal> = vec![RVal::Arr(vec![])];
        for x in &al {
            docs.push(x.clone());
            docs.push(RVal::Arr(vec![x.clone()]));
            for y in &al {
                docs.push(RVal::Arr(vec![x.clone(), y.clone()]));
            }
        }
        let forms: Arc<Vec<(RVal, Vec<Vec<u8>>)>> = Arc::new(
            docs.into_iter()
                .map(|d| {
                    let text = refmodel::text::print(&d).into_bytes();
                    let own = guard(|| jsonb::parse_value(&text).map(|v| v.to_vec())).ok().and_then(|r| r.ok()).unwrap_or_default();
                    let mut esc = String::new();
                    crate::checks::c11::escaped_text(&d, &mut esc);
                    // the same document as rebuilt by the crate's builders (strip_nulls rebuilds every
                    // container; no object of this universe has a null member, so the value is unchanged)
                    let rebuilt = guard(|| { let mut o = vec![]; jsonb::strip_nulls(&enc(&d), &mut o).map(|_| o) }).ok().and_then(|r| r.ok()).unwrap_or_default();
                    let f = vec![enc(&d), own, text, esc.into_bytes(), rebuilt];
                    (d, f)
                })
                .collect(),
        );
        let m = forms.len();
        sp.push(Space::new("operands in five forms (model bytes, jsonb's own encoding of the text, text, escaped text, rebuilt by the crate's builders): all pairs x all form pairs", m as u64, move |i, acc| {
            const FN: [&str; 5] = ["model-bytes", "own-encoder-bytes", "text", "escaped-text", "rebuilt-by-strip_nulls"];
            let (a, fa) = &forms[i as usize];
            for (b, fb) in forms.iter() {
                let ei = ops::array_intersection(a, b);
                let ee = ops::array_except(a, b);
                let eo = ops::array_overlap(a, b);
                for (x, xa) in fa.iter().enumerate() {
                    for (y, yb) in fb.iter().enumerate() {
                        if x == 0 && y == 0 {
                            continue;
                        }
                        acc.nontrivial += 1;
                        let ctx = || json!({"a": format!("{:?}", a), "b": format!("{:?}", b), "a_form": FN[x], "b_form": FN[y], "a_bytes": String::from_utf8_lossy(xa), "b_bytes": String::from_utf8_lossy(yb)});
                        call("forms:intersection", |buf| jsonb::array_intersection(xa, yb, buf), &ei, acc, &ctx);
                        call("forms:except", |buf| jsonb::array_except(xa, yb, buf), &ee, acc, &ctx);
                        acc.eval();
                        match guard(|| jsonb::array_overlap(xa, yb)) {
                            Ok(Ok(o)) if o == eo => {}
                            other => acc.vio("forms:overlap:differs-from-multiset-model", || json!({"ctx": ctx(), "expected": eo, "observed": format!("{:?}", other)})),
                        }
                    }
                }
            }
            for (x, xa) in fa.iter().enumerate().skip(1) {
                let ctx = || json!({"a": format!("{:?}", a), "a_form": FN[x]});
                call("forms:distinct", |buf| jsonb::array_distinct(xa, buf), &ops::array_distinct(a), acc, &ctx);
            }
        }));
    }
    // NaN and the infinities (JSONB numbers that no text can spell), handed over as the model's bytes,
    // as the bytes jsonb's own Value encoder writes, and rebuilt by the builders
    {
        let al: Vec<RVal> = vec![RVal::f(f64::NAN), RVal::f(f64::INFINITY), RVal::f(f64::NEG_INFINITY), RVal::u(1), RVal::s("a"), RVal::arr(vec![RVal::f(f64::NAN)]), RVal::obj(vec![("a", RVal::f(f64::NAN)), ("b", RVal::f(f64::INFINITY))])];
        let mut docs: Vec<RVal> = vec![];
        for x in &al {
            docs.push(x.clone());
            docs.push(RVal::Arr(vec![x.clone()]));
            for y in &al {
                docs.push(RVal::Arr(vec![x.clone(), y.clone()]));
                docs.push(RVal::Arr(vec![x.clone(), y.clone(), x.clone()]));
            }
        }
        let forms: Arc<Vec<(RVal, Vec<Vec<u8>>)>> = Arc::new(
            docs.into_iter()
                .map(|d| {
                    let own = guard(|| crate::conv::to_value(&d).to_vec()).unwrap_or_default();
                    let rebuilt = guard(|| { let mut o = vec![]; jsonb::strip_nulls(&enc(&d), &mut o).map(|_| o) }).ok().and_then(|r| r.ok()).unwrap_or_default();
                    let f = vec![enc(&d), own, rebuilt];
                    (d, f)
                })
                .collect(),
        );
        sp.push(Space::new("non-finite numbers as elements, operands in three byte forms (model, Value encoder, rebuilt)", forms.len() as u64, move |i, acc| {
            const FN: [&str; 3] = ["model-bytes", "Value-encoder-bytes", "rebuilt-by-strip_nulls"];
            let (a, fa) = &forms[i as usize];
            for (b, fb) in forms.iter() {
                let ei = ops::array_intersection(a, b);
                let ee = ops::array_except(a, b);
                let eo = ops::array_overlap(a, b);
                for (x, xa) in fa.iter().enumerate() {
                    for (y, yb) in fb.iter().enumerate() {
                        acc.nontrivial += 1;
                        let ctx = || json!({"a": format!("{:?}", a), "b": format!("{:?}", b), "a_form": FN[x], "b_form": FN[y], "a_hex": hex(xa), "b_hex": hex(yb)});
                        call("nonfinite:intersection", |buf| jsonb::array_intersection(xa, yb, buf), &ei, acc, &ctx);
                        call("nonfinite:except", |buf| jsonb::array_except(xa, yb, buf), &ee, acc, &ctx);
                        acc.eval();
                        match guard(|| jsonb::array_overlap(xa, yb)) {
                            Ok(Ok(o)) if o == eo => {}
                            other => acc.vio("nonfinite:overlap:differs-from-multiset-model", || json!({"ctx": ctx(), "expected": eo, "observed": format!("{:?}", other.map_err(|p| panic_class(&p)))})),
                        }
                    }
                }
            }
            for (x, xa) in fa.iter().enumerate() {
                let ctx = || json!({"a": format!("{:?}", a), "a_form": FN[x]});
                call("nonfinite:distinct", |buf| jsonb::array_distinct(xa, buf), &ops::array_distinct(a), acc, &ctx);
            }
        }));
    }
    // texts whose numbers have a spelling the model printer never writes (-0, exponent forms, padded
    // fractions): what they denote decides (one zero, whatever its sign was written as)
    {
        let raw: Vec<&str> = vec!["[0,-0]", "[-0,0,0.0]", "-0", "0", "[[-0],[0]]", "[1e0,1,1.0,10e-1]", "[1.50,1.5,15e-1]", "[{\"a\":-0},{\"a\":0}]", "[-0.0,0.0,-0]",
            // strings in spellings the printer never writes: the optional \/ escape, \u escapes of plain characters
            "[\"\\/\",\"/\",\".\"]", "[\"a\\/b\",\"a/b\",\"a.b\"]", "\"\\/\"", "\"/\"", "[{\"\\/\":1},{\"/\":1},{\".\":1}]", "[\"\\u002f\",\"/\"]", "[\"\\u0041\",\"A\",\"a\"]", "[\"\\n\",\"\\u000a\",\"n\"]", "[\"\\u00e9\",\"\u{e9}\",\"e\"]"];
        let items: Arc<Vec<(String, RVal)>> = Arc::new(raw.into_iter().map(|s| (s.to_string(), refmodel::text::relaxed_json(s.as_bytes()).expect("model parses").val)).collect());
        sp.push(Space::new("texts with number and string spellings the printer never writes (-0, exponents, padded fractions; \\/ and \\u escapes of plain characters)", items.len() as u64, move |i, acc| {
            let (si, vi) = &items[i as usize];
            let ctx = || json!({"a_text": si});
            acc.nontrivial += 1;
            call("text-spellings:distinct", |buf| jsonb::array_distinct(si.as_bytes(), buf), &ops::array_distinct(vi), acc, &ctx);
            for (sj, vj) in items.iter() {
                let ctx = || json!({"a_text": si, "b_text": sj});
                let bj = enc(vj);
                call("text-spellings:intersection", |buf| jsonb::array_intersection(si.as_bytes(), sj.as_bytes(), buf), &ops::array_intersection(vi, vj), acc, &ctx);
                call("text-spellings:except", |buf| jsonb::array_except(si.as_bytes(), &bj, buf), &ops::array_except(vi, vj), acc, &ctx);
                acc.eval();
                match guard(|| jsonb::array_overlap(&enc(vi), sj.as_bytes())) {
                    Ok(Ok(o)) if o == ops::array_overlap(vi, vj) => {}
                    other => acc.vio("text-spellings:overlap:differs-from-multiset-model", || json!({"ctx": ctx(), "observed": format!("{:?}", other.map_err(|p| panic_class(&p)))})),
                }
            }
        }));
    }
    // size sweep: every N up to the limit, list with many duplicates against three related lists
    let sz = Arc::new(crate::checks::scale::sizes_heavy(tier));
    sp.push(Space::new("size sweep: N-element lists with duplicates", sz.len() as u64, move |i, acc| {
        let n = sz[i as usize];
        let a = crate::checks::scale::sized(2, n);
        let others = [crate::checks::scale::sized(2, n / 2), crate::checks::scale::sized(0, n.min(40)), RVal::Arr(vec![RVal::s("dup"), RVal::f(0.0), RVal::Str("L".repeat(300))])];
        let ab = enc(&a);
        let ctx = || json!({"N": n});
        acc.nontrivial += 1;
        call("distinct", |buf| jsonb::array_distinct(&ab, buf), &ops::array_distinct(&a), acc, &ctx);
        for o in &others {
            let ob = enc(o);
            call("intersection", |buf| jsonb::array_intersection(&ab, &ob, buf), &ops::array_intersection(&a, o), acc, &ctx);
            call("except", |buf| jsonb::array_except(&ab, &ob, buf), &ops::array_except(&a, o), acc, &ctx);
            call("intersection", |buf| jsonb::array_intersection(&ob, &ab, buf), &ops::array_intersection(o, &a), acc, &ctx);
            call("except", |buf| jsonb::array_except(&ob, &ab, buf), &ops::array_except(o, &a), acc, &ctx);
            acc.eval();
            match guard(|| jsonb::array_overlap(&ab, &ob)) {
                Ok(Ok(x)) if x == ops::array_overlap(&a, o) => {}
                other => acc.vio("overlap:differs-from-multiset-model", || json!({"N": n, "observed": format!("{:?}", other)})),
            }
        }
    }));
    // results whose element count crosses 2^16: N distinct numbers (so the expected results are the list
    // itself, or empty, by construction) through distinct, intersection with itself, except against [] and itself
    sp.push(Space::new("results of 2^16 elements and more (N distinct numbers)", 4, |i, acc| {
        let n = [65535usize, 65536, 65537, 70000][i as usize];
        let a = RVal::Arr((0..n).map(|k| RVal::u(k as u64)).collect());
        let empty = RVal::Arr(vec![]);
        let (ab, eb) = (enc(&a), enc(&empty));
        let ctx = || json!({"N": n});
        acc.nontrivial += 1;
        call("distinct", |buf| jsonb::array_distinct(&ab, buf), &a, acc, &ctx);
        call("intersection", |buf| jsonb::array_intersection(&ab, &ab, buf), &a, acc, &ctx);
        call("except", |buf| jsonb::array_except(&ab, &eb, buf), &a, acc, &ctx);
        call("except", |buf| jsonb::array_except(&ab, &ab, buf), &empty, acc, &ctx);
    }));
    sp
}

pub fn meta(tier: Tier) -> (String, serde_json::Value, Vec<String>) {
    (
        "every list of bounded length over a 13-element alphabet built for identity collisions (1 unsigned / 1 signed / 1.0 / \"a\" / null / [1] / [1.0] / {\"a\":1}, strings whose payload bytes equal a number's or an object's, payloads over 255 bytes), plus scalar and object inputs; every ordered pair for the binary functions; a second universe (15 elements incl. 0, -1, 0.0, strings from planes 1, 2 and 16, lists <= 2) with every operand in five forms - model bytes, jsonb's own encoding of the text, JSON text, text with \\u escapes, the document rebuilt by strip_nulls - over all pairs and all form pairs; a size sweep; model = multiset semantics with identity = same value in same number encoding; laws re-checked on the implementation's own outputs. Non-trivial = first list has >=2 elements and second >=1.".into(),
        json!({"max_list_len": if tier.thorough() {4} else {3}, "alphabet": 8, "pairs": "all ordered pairs"}),
        vec![],
    )
}
