//! C14 — the comparable key sorts bytewise exactly as compare orders documents.
use crate::checks::c04::docs;
use crate::harness::*;
use crate::univ;
use refmodel::layout::hex;
use refmodel::{RNum, RVal};
use serde_json::json;
use std::cmp::Ordering;

/// The key format as the code documents it (depth byte, kind byte, raw string bytes, order
/// preserving image of the f64 value).  Used ONLY to decide whether a key/compare mismatch is
/// the recorded design-level finding (key == this format) or something new.
pub fn model_key(v: &RVal, depth: u8, out: &mut Vec<u8>) {
    out.push(depth);
    match v {
        RVal::Null => out.push(7),
        RVal::Bool(true) => out.push(2),
        RVal::Bool(false) => out.push(1),
        RVal::Str(s) => {
            out.push(4);
            out.extend_from_slice(s.as_bytes());
        }
        RVal::Num(n) => {
            out.push(3);
            let f = match *n {
                RNum::U(u) => u as f64,
                RNum::I(i) => i as f64,
                RNum::F(b) => f64::from_bits(b),
            };
            let f = if f == 0.0 { 0.0 } else { f }; // -0.0 and 0 share a key
            let s = f.to_bits() as i64;
            let v = s ^ (((s >> 63) as u64) >> 1) as i64;
            let mut b = v.to_be_bytes();
            b[0] ^= 0x80;
            out.extend_from_slice(&b);
        }
        RVal::Arr(a) => {
            out.push(6);
            for x in a {
                model_key(x, depth.wrapping_add(1), out);
            }
        }
        RVal::Obj(o) => {
            out.push(5);
            for (k, x) in o {
                model_key(&RVal::Str(k.clone()), depth.wrapping_add(1), out);
                model_key(x, depth.wrapping_add(1), out);
            }
        }
    }
}

fn has_string(v: &RVal) -> bool {
    let mut s = vec![];
    v.all_strings(&mut s);
    !s.is_empty()
}

fn collect_nums(v: &RVal, out: &mut Vec<RNum>) {
    match v {
        RVal::Num(n) => out.push(*n),
        RVal::Arr(a) => a.iter().for_each(|x| collect_nums(x, out)),
        RVal::Obj(o) => o.values().for_each(|x| collect_nums(x, out)),
        _ => {}
    }
}

fn img(n: &RNum) -> f64 {
    match *n {
        RNum::U(u) => u as f64,
        RNum::I(i) => i as f64,
        RNum::F(b) => f64::from_bits(b),
    }
}

/// classify a mismatch whose keys both equal the documented format
fn classify(a: &RVal, b: &RVal) -> &'static str {
    let (mut na, mut nb) = (vec![], vec![]);
    collect_nums(a, &mut na);
    collect_nums(b, &mut nb);
    let all: Vec<RNum> = na.iter().chain(nb.iter()).cloned().collect();
    let mut negzero = false;
    let mut image_tie = false;
    for x in &all {
        for y in &all {
            let exact = refmodel::val::num_cmp(x, y);
            let (fx, fy) = (img(x), img(y));
            if exact == Ordering::Equal && fx.to_bits() != fy.to_bits() && fx == 0.0 {
                negzero = true;
            }
            if exact != Ordering::Equal && fx.to_bits() == fy.to_bits() {
                image_tie = true;
            }
        }
    }
    let _ = negzero; // -0.0 / 0 share a key since the repair in /repo: no longer a format effect
    if image_tie {
        "format:num-f64-image"
    } else if has_string(a) || has_string(b) {
        "format:str-marker"
    } else {
        "format:unexplained"
    }
}

pub fn universe(tier: Tier) -> Vec<RVal> {
    let mut out: Vec<RVal> = vec![RVal::Null, RVal::Bool(true), RVal::Bool(false)];
    for s in univ::sstr() {
        out.push(RVal::Str(s.clone()));
    }
    for n in univ::b64_finite().iter().step_by(if tier.thorough() { 1 } else { 4 }) {
        out.push(RVal::Num(*n));
    }
    let sub: Vec<RVal> = vec![
        RVal::s(""), RVal::s("a"), RVal::s("ab"), RVal::s("b"), RVal::s("a\u{1}"), RVal::s("a\u{1}\u{3}"), RVal::s("a\u{1}\u{4}"), RVal::s("\u{0}"),
        RVal::u(0), RVal::f(-0.0), RVal::f(5e-324), RVal::f(-5e-324), RVal::f(1e-20), RVal::f(-1e-300), RVal::f(f64::MIN_POSITIVE), RVal::u(1), RVal::f(1.0), RVal::f(1.000001), RVal::u(100), RVal::f(100.001), RVal::u(1 << 53), RVal::u((1 << 53) + 1), RVal::f(9007199254740992.0),
        RVal::Null, RVal::Bool(true), RVal::Bool(false), RVal::arr(vec![]), RVal::obj(vec![]),
    ];
    for x in &sub {
        out.push(RVal::Arr(vec![x.clone()]));
        out.push(RVal::obj(vec![("a", x.clone())]));
        for y in &sub {
            out.push(RVal::Arr(vec![x.clone(), y.clone()]));
            out.push(RVal::obj(vec![("a", x.clone()), ("b", y.clone())]));
        }
    }
    out.extend(univ::relation_universe(univ::d2(), false));
    out.extend(refmodel::gen::strkey_docs());
    out.extend(refmodel::gen::tagv_relation_docs());
    // NaN and the infinities (valid JSONB numbers): bare, as only element, followed by an element
    for f in [f64::NAN, f64::INFINITY, f64::NEG_INFINITY] {
        out.push(RVal::f(f));
        out.push(RVal::Arr(vec![RVal::f(f)]));
        out.push(RVal::Arr(vec![RVal::f(f), RVal::u(1)]));
        out.push(RVal::obj(vec![("a", RVal::f(f))]));
    }
    if tier.thorough() {
        out.extend(univ::p5().iter().cloned());
    }
    let mut seen = std::collections::HashSet::new();
    out.into_iter().filter(|x| seen.insert(x.clone())).collect()
}

pub fn spaces(tier: Tier) -> Vec<Space<'static>> {
    let d = docs(universe(tier));
    let n = d.vals.len();
    let keys: std::sync::Arc<Vec<Result<Vec<u8>, PanicInfo>>> = std::sync::Arc::new(
        d.bytes
            .iter()
            .map(|b| {
                guard(|| {
                    let mut k = Vec::new();
                    jsonb::convert_to_comparable(b, &mut k);
                    k
                })
            })
            .collect(),
    );
    let mut sp: Vec<Space> = vec![];
    {
        // the key of a document given as JSON text (three spellings) is the key of its encoding
        let (d0, k0) = (d.clone(), keys.clone());
        sp.push(Space::new("key of the text form == key of the encoding (canonical, short-escape and CRLF/TAB spellings)", n as u64, move |i, acc| {
            let i = i as usize;
            let v = &d0.vals[i];
            if !v.all_finite() {
                return;
            }
            let Ok(kb) = &k0[i] else { return };
            for style in [0u8, 2, 3] {
                acc.eval();
                let t = refmodel::text::print_styled(v, style);
                let r = guard(|| { let mut k = Vec::new(); jsonb::convert_to_comparable(t.as_bytes(), &mut k); k });
                match r {
                    Ok(k) if &k == kb => {}
                    other => acc.vio("key:text-form-key-differs-from-the-key-of-the-encoding", || json!({"text": t, "style": style, "observed": format!("{:?}", other.map(|k| hex(&k)).map_err(|p| panic_class(&p))), "expected": hex(kb)})),
                }
            }
        }));
    }
    {
        // the same documents as the crate itself produces them -- written by its Value encoder, and cut out
        // of the parent [d] by get_by_index: the key must be the key of the canonical encoding, and compare
        // must order them against every document exactly as it orders the canonical encoding (which
        // "all-pairs" holds against the key order)
        let (d0, k0) = (d.clone(), keys.clone());
        sp.push(Space::new("documents as the crate produces them (Value encoder, get_by_index out of [d]): same key, same order against every document", n as u64, move |i, acc| {
            let i = i as usize;
            let d = &d0;
            let v = &d.vals[i];
            let Ok(kc) = &k0[i] else { return };
            let own = guard(|| crate::conv::to_value(v).to_vec());
            let parent = refmodel::layout::enc(&RVal::Arr(vec![v.clone()]));
            let cut = guard(|| jsonb::get_by_index(&parent, 0));
            let forms: Vec<(&str, Vec<u8>)> = match (own, cut) {
                (Ok(o), Ok(Some(c))) => vec![("Value-encoder", o), ("get_by_index([d],0)", c)],
                other => {
                    acc.vio("crate-produced-form:cannot-be-produced", || json!({"a": format!("{:?}", v), "observed": format!("{:?}", other.0.is_ok())}));
                    return;
                }
            };
            for (name, f) in &forms {
                acc.eval();
                match guard(|| { let mut k = Vec::new(); jsonb::convert_to_comparable(f, &mut k); k }) {
                    Ok(k) if &k == kc => {}
                    other => acc.vio("crate-produced-form:key-differs-from-the-key-of-the-canonical-encoding", || json!({"a": format!("{:?}", v), "form": name, "form_hex": hex(f), "canonical_hex": hex(&d.bytes[i]), "observed": format!("{:?}", other.map(|k| hex(&k)).map_err(|p| panic_class(&p))), "expected": hex(kc)})),
                }
                if f == &d.bytes[i] {
                    continue;
                }
                for j in 0..n {
                    acc.eval();
                    acc.nontrivial += 1;
                    let r = guard(|| (jsonb::compare(f, &d.bytes[j]).ok(), jsonb::compare(&d.bytes[i], &d.bytes[j]).ok(), jsonb::compare(&d.bytes[j], f).ok(), jsonb::compare(&d.bytes[j], &d.bytes[i]).ok()));
                    match r {
                        Ok((a, b, c, e)) if a == b && c == e && a.is_some() => {}
                        other => acc.vio("crate-produced-form:compare-orders-it-differently-from-the-canonical-encoding", || json!({"a": format!("{:?}", v), "form": name, "form_hex": hex(f), "b": format!("{:?}", d.vals[j]), "observed (form:b, canonical:b, b:form, b:canonical)": format!("{:?}", other.map_err(|p| panic_class(&p)))})),
                    }
                }
            }
        }));
    }
    let (d1, k1) = (d.clone(), keys.clone());
    sp.push(Space::new("all-pairs", n as u64, move |i, acc| {
        let i = i as usize;
        let d = &d1;
        let ka = match &k1[i] {
            Ok(k) => k,
            Err(p) => {
                acc.vio(&format!("key:{}", panic_class(p)), || json!({"a": format!("{:?}", d.vals[i])}));
                return;
            }
        };
        let mut mk_a = Vec::new();
        model_key(&d.vals[i], 0, &mut mk_a);
        for j in 0..n {
            let Ok(kb) = &k1[j] else { continue };
            acc.eval();
            if i != j {
                acc.nontrivial += 1;
            }
            let cmp = match guard(|| jsonb::compare(&d.bytes[i], &d.bytes[j])) {
                Ok(Ok(c)) => c,
                _ => {
                    acc.vio("compare-failed", || json!({"a": format!("{:?}", d.vals[i]), "b": format!("{:?}", d.vals[j])}));
                    continue;
                }
            };
            // the documents the keys stand for may be handed to compare in either form: for a fixed eighth of
            // the pairs (a complete residue class, not a sample) also with one side as JSON text
            if (i * 31 + j) % 8 == 0 {
                if let (Some(ti), Some(tj)) = (&d.texts[i], &d.texts[j]) {
                    acc.eval();
                    match guard(|| (jsonb::compare(&d.bytes[i], tj.as_bytes()).ok(), jsonb::compare(ti.as_bytes(), &d.bytes[j]).ok())) {
                        Ok((Some(x), Some(y))) if x == cmp && y == cmp => {}
                        other => acc.vio("compare:mixed-text/JSONB-forms-order-differently-from-JSONB/JSONB", || json!({"a": format!("{:?}", d.vals[i]), "b": format!("{:?}", d.vals[j]), "binary,binary": format!("{:?}", cmp), "observed (binary,text / text,binary)": format!("{:?}", other.map_err(|p| panic_class(&p)))})),
                    }
                }
            }
            let ko = ka.cmp(kb);
            if ko == cmp {
                acc.outcome(match ko { Ordering::Less => "agree-lt", Ordering::Equal => "agree-eq", Ordering::Greater => "agree-gt" });
                continue;
            }
            acc.outcome("disagree");
            let mut mk_b = Vec::new();
            model_key(&d.vals[j], 0, &mut mk_b);
            let class = if cmp != refmodel::ops::ref_cmp(&d.vals[i], &d.vals[j]) {
                "compare-differs-from-documented-order"
            } else if *ka == mk_a && *kb == mk_b {
                classify(&d.vals[i], &d.vals[j])
            } else {
                "key-differs-from-documented-format"
            };
            acc.vio(&format!("key-order!=compare:{}", class), || json!({"a": format!("{:?}", d.vals[i]), "b": format!("{:?}", d.vals[j]), "key_a": hex(ka), "key_b": hex(kb), "key_order": format!("{:?}", ko), "compare": format!("{:?}", cmp)}));
        }
        acc.sample(|| json!({"a": format!("{:?}", d.vals[i]), "key_a": hex(ka)}));
    }));
    {
        let sz = std::sync::Arc::new(crate::checks::scale::sizes(tier));
        sp.push(Space::new("size sweep: every N up to the limit, 6 related documents, all pairs", sz.len() as u64, move |i, acc| crate::checks::scale::sized_relations(sz[i as usize], acc, 2)));
        sp.push(Space::new("depth sweep: every depth 1..=300, 21 chains, all pairs", 300, |i, acc| crate::checks::scale::depth_relations(i as usize + 1, acc, 2)));
    }
    let nv = crate::checks::scale::variants().len() as u64;
    sp.push(Space::new("scale-pairs (big documents and near-copies)", nv, |i, acc| crate::checks::scale::relation_row(i as usize, acc, 2)));
    sp
}

pub fn meta(tier: Tier) -> (String, serde_json::Value, Vec<String>) {
    (
        "full relation: for every ordered pair of the universe (scalars SSTR + B64 + null/bools; arrays/objects of <=2 elements over a 20-scalar collision alphabet; D2-based relation universe) the bytewise order of the two keys must equal compare(a,b), both computed by the implementation. A mismatch is classified as the recorded format finding only if both keys equal the documented key format. Non-trivial = off-diagonal pair.".into(),
        json!({"pairs": "all ordered pairs", "b64_stride": if tier.thorough() {1} else {4}}),
        vec!["compare itself is decided by C04".into()],
    )
}
