//! C06 — editing functions produce exactly the document the edit denotes.
use crate::calls::*;
use crate::harness::*;
use crate::univ;
use refmodel::layout::{enc, hex, strict_dec};
use refmodel::ops;
use refmodel::RVal;
use serde_json::json;
use std::sync::Arc;

/// run one call on an empty buffer and judge it
pub fn judge(c: &Call, acc: &mut Acc, ctx: &dyn Fn() -> serde_json::Value) -> Option<Vec<u8>> {
    acc.eval();
    let fname = c.label.split('(').next().unwrap_or("?").to_string();
    let mut buf = Vec::new();
    match guard(|| (c.run)(&mut buf)) {
        Err(p) => {
            acc.outcome("panic");
            acc.vio(&format!("{}:{}", fname, panic_class(&p)), || json!({"ctx": ctx(), "call": c.label}));
            None
        }
        Ok(r) => match (r, &c.expect) {
            (Ok(()), Ok(e)) => {
                acc.outcome("ok");
                if buf != enc(e) {
                    let canon = strict_dec(&buf);
                    let class = match &canon {
                        Ok(x) if x == e => unreachable!(),
                        Ok(_) => format!("{}:wrong-document", fname),
                        Err(_) => match jsonb::parse_jsonb(&buf) {
                            Ok(val) if crate::conv::from_value(&val) == *e => format!("{}:right-value-but-not-canonical-bytes", fname),
                            _ => format!("{}:wrong-and-not-canonical", fname),
                        },
                    };
                    acc.vio(&class, || json!({"ctx": ctx(), "call": c.label, "expected": format!("{:?}", e), "observed_hex": hex(&buf), "strict": format!("{:?}", canon)}));
                }
                Some(buf)
            }
            (Err(e), Err(x)) => {
                acc.outcome("documented-error");
                if map_err(&e).as_ref() != Some(x) {
                    acc.vio(&format!("{}:wrong-error", fname), || json!({"ctx": ctx(), "call": c.label, "expected": format!("{:?}", x), "observed": format!("{:?}", e)}));
                }
                if !buf.is_empty() {
                    acc.vio(&format!("{}:error-but-buffer-written", fname), || json!({"ctx": ctx(), "call": c.label, "buffer": hex(&buf)}));
                }
                None
            }
            (Ok(()), Err(x)) => {
                acc.vio(&format!("{}:ok-where-error-documented", fname), || json!({"ctx": ctx(), "call": c.label, "expected": format!("{:?}", x), "observed_hex": hex(&buf)}));
                None
            }
            (Err(e), Ok(x)) => {
                acc.vio(&format!("{}:error-on-valid-edit", fname), || json!({"ctx": ctx(), "call": c.label, "expected": format!("{:?}", x), "observed": format!("{:?}", e)}));
                None
            }
        },
    }
}

fn check_doc(v: &RVal, o: &Opts, acc: &mut Acc) {
    if univ::width_nontrivial(v) {
        acc.nontrivial += 1;
    }
    let ctx = || json!({"doc": format!("{:?}", v), "hex": hex(&enc(v))});
    for c in edit_calls(v, o) {
        judge(&c, acc, &ctx);
    }
    acc.sample(|| json!({"doc": format!("{:?}", v), "calls": edit_calls(v, o).iter().take(6).map(|c| c.label.clone()).collect::<Vec<_>>()}));
}

pub fn spaces(tier: Tier) -> Vec<Space<'static>> {
    let mut sp: Vec<Space> = vec![];
    let pool = mkpool(pool8());
    let d2 = univ::d2();
    let p1 = pool.clone();
    sp.push(Space::new("d2-derived-args", d2.len() as u64, move |i, acc| check_doc(&d2[i as usize], &Opts { extremes: false, pool: p1.clone(), sets: false }, acc)));
    // the same edits with the document given as JSON text (canonical, and a spelling with CRLF / TAB
    // between tokens and short escapes): the text branch must denote the same edit
    {
        let mut td: Vec<RVal> = univ::d2().iter().cloned().collect();
        td.extend(refmodel::gen::keyorder_docs());
        let p7 = pool.clone();
        sp.push(Space::new("documents given as JSON text (D2 and key-order objects, two spellings)", td.len() as u64 * 2, move |i, acc| {
            let v = &td[(i / 2) as usize];
            if !v.all_finite() {
                return;
            }
            let text = if i % 2 == 0 { refmodel::text::print(v) } else { refmodel::text::print_styled(v, 3) };
            let o = Opts { extremes: false, pool: p7.clone(), sets: false };
            let ctx = || json!({"doc_text": text});
            for c in crate::calls::edit_calls_from(v, &o, text.clone().into_bytes()) {
                judge(&c, acc, &ctx);
            }
            // ... and as the SECOND (text) operand of a JSONB first operand
            for (q, qb) in p7.iter().take(4) {
                let len = ops::array_length(q).unwrap_or(1) as i32;
                let mut calls: Vec<Call> = vec![];
                for (k, flag) in [("a", true), ("zz", false), ("a", false)] {
                    let (x, y) = (qb.clone(), text.clone().into_bytes());
                    calls.push(Call { label: format!("object_insert({:?},{:?},text s,{})", q, k, flag), expect: ops::object_insert(q, k, v, flag), run: Box::new(move |buf| jsonb::object_insert(&x, k, &y, flag, buf)) });
                }
                for pos in [0, -1, len] {
                    let (x, y) = (qb.clone(), text.clone().into_bytes());
                    calls.push(Call { label: format!("array_insert({:?},{},text s)", q, pos), expect: Ok(ops::array_insert(q, pos, v)), run: Box::new(move |buf| jsonb::array_insert(&x, pos, &y, buf)) });
                }
                for c in calls {
                    judge(&c, acc, &ctx);
                }
            }
        }));
    }
    let ko = refmodel::gen::keyorder_docs();
    let p4 = pool.clone();
    sp.push(Space::new("key-order objects (byte order != length order != case order)", ko.len() as u64, move |i, acc| check_doc(&ko[i as usize], &Opts { extremes: false, pool: p4.clone(), sets: false }, acc)));
    let sk = refmodel::gen::strkey_docs();
    let p5 = pool.clone();
    sp.push(Space::new("special-character keys (every key and pair of keys from SSTR)", sk.len() as u64, move |i, acc| check_doc(&sk[i as usize], &Opts { extremes: false, pool: p5.clone(), sets: false }, acc)));
    let tv = refmodel::gen::tagv_docs();
    let p6 = pool.clone();
    sp.push(Space::new("tag-like payloads and keyword keys", tv.len() as u64, move |i, acc| check_doc(&tv[i as usize], &Opts { extremes: false, pool: p6.clone(), sets: false }, acc)));
    let d1q = univ::d1q();
    let p2 = pool.clone();
    sp.push(Space::new("d1q-derived-args", d1q.len() as u64, move |i, acc| check_doc(&d1q[i as usize], &Opts { extremes: false, pool: p2.clone(), sets: false }, acc)));
    // all ordered pairs for the binary functions
    let base: &'static Vec<RVal> = if tier.thorough() { univ::p5() } else { univ::d2() };
    let bytes: Arc<Vec<Vec<u8>>> = Arc::new(base.iter().map(enc).collect());
    let n = base.len();
    sp.push(Space::new("all-pairs-binary", n as u64, move |i, acc| {
        let i = i as usize;
        let a = &base[i];
        let ab = &bytes[i];
        for j in 0..n {
            let q = &base[j];
            let qb = &bytes[j];
            let len = ops::array_length(a).unwrap_or(1) as i32;
            let ctx = || json!({"a": format!("{:?}", a), "b": format!("{:?}", q)});
            if a.is_container() && q.is_container() {
                acc.nontrivial += 1;
            }
            let mut calls: Vec<Call> = vec![Call { label: "concat(a,b)".into(), expect: Ok(ops::concat(a, q)), run: { let (x, y) = (ab.clone(), qb.clone()); Box::new(move |buf| jsonb::concat(&x, &y, buf)) } }];
            for pos in [0, -1, len] {
                let (x, y) = (ab.clone(), qb.clone());
                calls.push(Call { label: format!("array_insert(a,{},b)", pos), expect: Ok(ops::array_insert(a, pos, q)), run: Box::new(move |buf| jsonb::array_insert(&x, pos, &y, buf)) });
            }
            for (k, flag) in [("a", true), ("ab", false)] {
                let (x, y) = (ab.clone(), qb.clone());
                calls.push(Call { label: format!("object_insert(a,{:?},b,{})", k, flag), expect: ops::object_insert(a, k, q, flag), run: Box::new(move |buf| jsonb::object_insert(&x, k, &y, flag, buf)) });
            }
            for c in calls {
                judge(&c, acc, &ctx);
            }
        }
    }));
    // strip_nulls on the null-rich depth-3 universe
    let d3 = univ::d3();
    let cnt = if tier.thorough() { d3.count(3) } else { 200_000 };
    sp.push(Space::new("strip_nulls-d3", cnt, move |i, acc| {
        // quick: a stride through the full universe is not exhaustive -> take the first `cnt` (simplest-first order)
        let v = d3.nth(3, i);
        let b = enc(&v);
        let c = Call { label: "strip_nulls".into(), expect: Ok(ops::strip_nulls(&v)), run: Box::new(move |buf| jsonb::strip_nulls(&b, buf)) };
        if v.depth() >= 2 {
            acc.nontrivial += 1;
        }
        judge(&c, acc, &|| json!({"doc": format!("{:?}", v)}));
    }));
    // build_array: every list of <= 3 parts
    let parts: Arc<Vec<(RVal, Vec<u8>)>> = mkpool({
        let mut p = pool8();
        p.extend([RVal::u(256), RVal::s(""), RVal::Bool(true), RVal::arr(vec![RVal::arr(vec![])])]);
        p
    });
    let np = parts.len() as u64;
    let pa = parts.clone();
    sp.push(Space::new("build_array-lists<=3", 1 + np + np * np + np * np * np, move |mut i, acc| {
        let mut len = 0;
        let mut c = 1;
        while i >= c {
            i -= c;
            c *= np;
            len += 1;
        }
        let mut idx = vec![];
        for _ in 0..len {
            idx.push((i % np) as usize);
            i /= np;
        }
        let vals: Vec<RVal> = idx.iter().map(|k| pa[*k].0.clone()).collect();
        let pa2 = pa.clone();
        let idx2 = idx.clone();
        acc.nontrivial += (len >= 2) as u64;
        let c = Call { label: format!("build_array({:?})", vals), expect: Ok(ops::build_array(&vals)), run: Box::new(move |buf| jsonb::build_array(idx2.iter().map(|k| &pa2[*k].1[..]), buf)) };
        judge(&c, acc, &|| json!({}));
    }));
    // build_object: every list of <= 3 (key, part) pairs, every order, duplicates included
    let keys = ["a", "b", "", "ab"];
    let op: Arc<Vec<(RVal, Vec<u8>)>> = mkpool(vec![RVal::Null, RVal::u(1), RVal::s("x"), RVal::arr(vec![RVal::u(1)]), RVal::obj(vec![("k", RVal::Null)])]);
    let nk = (keys.len() * op.len()) as u64;
    sp.push(Space::new("build_object-lists<=3", 1 + nk + nk * nk + nk * nk * nk, move |mut i, acc| {
        let mut len = 0;
        let mut c = 1;
        while i >= c {
            i -= c;
            c *= nk;
            len += 1;
        }
        let mut items: Vec<(usize, usize)> = vec![];
        for _ in 0..len {
            let x = (i % nk) as usize;
            items.push((x / op.len(), x % op.len()));
            i /= nk;
        }
        let pairs: Vec<(String, RVal)> = items.iter().map(|(k, p)| (keys[*k].to_string(), op[*p].0.clone())).collect();
        let op2 = op.clone();
        let it2 = items.clone();
        let dup = { let mut ks: Vec<usize> = items.iter().map(|x| x.0).collect(); ks.sort(); ks.windows(2).any(|w| w[0] == w[1]) };
        acc.nontrivial += (len >= 2) as u64;
        acc.note(if dup { "build_object lists with duplicate keys" } else { "build_object lists without duplicates" }, 1);
        let c = Call { label: format!("build_object({:?})", pairs), expect: Ok(ops::build_object(&pairs)), run: Box::new(move |buf| jsonb::build_object(it2.iter().map(|(k, p)| (keys[*k], &op2[*p].1[..])), buf)) };
        judge(&c, acc, &|| json!({}));
    }));
    sp.push(Space::new("wide (4-6 siblings over 5 kinds)", refmodel::gen::wide_count(), |i, acc| crate::checks::scale::wide_deep_doc(&refmodel::gen::wide_nth(i), acc, 3)));
    sp.push(Space::new("deep (4-6 levels, 5 sibling patterns per level)", refmodel::gen::deep_count(), |i, acc| crate::checks::scale::wide_deep_doc(&refmodel::gen::deep_nth(i), acc, 3)));
    {
        let sz = std::sync::Arc::new(crate::checks::scale::sizes_heavy(tier));
        let n = sz.len() as u64 * crate::checks::scale::N_FAMILIES;
        sp.push(Space::new("size sweep: every N up to the limit x 5 families", n, move |i, acc| {
            let d = crate::checks::scale::sized_doc((i % crate::checks::scale::N_FAMILIES) as u8, sz[(i / crate::checks::scale::N_FAMILIES) as usize]);
            crate::checks::scale::editors(&d, &crate::checks::scale::small_pool(), acc)
        }));
        sp.push(Space::new("depth sweep: every depth 1..=300 x 3 shapes", 300, |i, acc| crate::checks::scale::depth_ops(i as usize + 1, acc, 3)));
    }
    let sd = crate::checks::scale::docs().clone();
    sp.push(Space::new("scale (counts/lengths/offsets across 2^8, 2^16, 2^20)", sd.len() as u64, move |i, acc| crate::checks::scale::editors(&sd[i as usize], &crate::checks::scale::small_pool(), acc)));
    if tier.thorough() {
        let d2k = univ::d2k();
        let p3 = pool.clone();
        sp.push(Space::new("d2k-derived-args", d2k.count(2), move |i, acc| check_doc(&d2k.nth(2, i), &Opts { extremes: false, pool: p3.clone(), sets: false }, acc)));
    }
    sp
}

pub fn meta(tier: Tier) -> (String, serde_json::Value, Vec<String>) {
    (
        "every document x every editing call whose arguments are derived from it (all positions -len-2..len+2, all names incl. case variants/prefixes/absent, every key path of length <= depth+1 into and past scalars, insert keys before/between/after/existing x flag, every key subset for delete/pick, 9 second operands), every ordered pair for the binary functions, strip_nulls on the null-rich depth-3 universe, build_array / build_object over every list of <=3 parts in every order with duplicates. Output bytes must equal the model encoder applied to the model edit; documented errors must be returned exactly there with the buffer untouched. Non-trivial = container input with nested/uneven children (pairs: both containers).".into(),
        json!({"pairs_base": if tier.thorough() {"P5 (26.6M pairs)"} else {"D2 (4.6M pairs)"}, "strip_nulls": if tier.thorough() {"all 998,994 documents of D3"} else {"first 200,000 documents of D3 (simplest first)"}}),
        vec!["array_insert on a non-array treats it as a one-element list (test_array_insert)".into(), "build_object: a later duplicate key replaces an earlier one".into()],
    )
}
