//! C03 — rendering JSONB as text yields valid JSON that denotes the same document.
use crate::conv::*;
use crate::harness::*;
use crate::univ;
use refmodel::layout::{enc, hex};
use refmodel::text::{strict_json, strip_insignificant_ws};
use refmodel::{RNum, RVal};
use serde_json::json;

/// split a JSON text into tokens (strings kept whole); None if it is not tokenisable
pub(crate) fn tokens(s: &str) -> Option<Vec<&str>> {
    let b = s.as_bytes();
    let mut out = vec![];
    let mut i = 0;
    while i < b.len() {
        match b[i] {
            b' ' | b'\n' | b'\t' | b'\r' => i += 1,
            b'[' | b']' | b'{' | b'}' | b',' | b':' => {
                out.push(&s[i..i + 1]);
                i += 1;
            }
            b'"' => {
                let st = i;
                i += 1;
                loop {
                    if i >= b.len() {
                        return None;
                    }
                    match b[i] {
                        b'\\' => i += 2,
                        b'"' => {
                            i += 1;
                            break;
                        }
                        _ => i += 1,
                    }
                }
                if i > b.len() {
                    return None;
                }
                out.push(&s[st..i]);
            }
            _ => {
                let st = i;
                while i < b.len() && !matches!(b[i], b' ' | b'\n' | b'\t' | b'\r' | b'[' | b']' | b'{' | b'}' | b',' | b':' | b'"') {
                    i += 1;
                }
                out.push(&s[st..i]);
            }
        }
    }
    Some(out)
}

/// the pretty layout the property describes, built from the compact tokens: two-space
/// indentation, one member per line, ": " after keys; empty containers written "[]" / "{}"
pub(crate) fn pretty_from_tokens(t: &[&str]) -> String {
    let mut out = String::new();
    let mut depth = 0usize;
    let nl = |out: &mut String, d: usize| {
        out.push('\n');
        for _ in 0..d {
            out.push_str("  ");
        }
    };
    let mut i = 0;
    while i < t.len() {
        match t[i] {
            "[" | "{" => {
                out.push_str(t[i]);
                if i + 1 < t.len() && (t[i + 1] == "]" || t[i + 1] == "}") {
                    out.push_str(t[i + 1]);
                    i += 1;
                } else {
                    depth += 1;
                    nl(&mut out, depth);
                }
            }
            "]" | "}" => {
                depth = depth.saturating_sub(1);
                nl(&mut out, depth);
                out.push_str(t[i]);
            }
            "," => {
                out.push(',');
                nl(&mut out, depth);
            }
            ":" => out.push_str(": "),
            x => out.push_str(x),
        }
        i += 1;
    }
    out
}

/// collapse the whitespace inside empty containers: whether an empty container is written on one
/// line, with a line break or with a blank line is left open by the property, but if its closing
/// bracket stands on a line of its own, that line is indented like every other line (two spaces per
/// level of the container); anything else is left in place and fails the layout comparison
pub(crate) fn collapse_empty(s: &str) -> String {
    let mut out = String::with_capacity(s.len());
    let b: Vec<char> = s.chars().collect();
    let mut i = 0;
    let mut in_str = false;
    let mut esc = false;
    let mut depth = 0usize;
    while i < b.len() {
        let c = b[i];
        if in_str {
            out.push(c);
            if esc {
                esc = false
            } else if c == '\\' {
                esc = true
            } else if c == '"' {
                in_str = false
            }
            i += 1;
            continue;
        }
        if c == '"' {
            in_str = true;
            out.push(c);
            i += 1;
            continue;
        }
        if c == '[' || c == '{' {
            let close = if c == '[' { ']' } else { '}' };
            let mut j = i + 1;
            while j < b.len() && matches!(b[j], ' ' | '\n' | '\t' | '\r') {
                j += 1;
            }
            if j < b.len() && b[j] == close {
                let ws: String = b[i + 1..j].iter().collect();
                let indent_ok = match ws.rfind('\n') {
                    None => true,
                    Some(k) => ws[k + 1..].chars().all(|x| x == ' ') && ws[k + 1..].len() == 2 * depth,
                };
                if indent_ok {
                    out.push(c);
                    out.push(close);
                    i = j + 1;
                    continue;
                }
            }
            depth += 1;
        } else if c == ']' || c == '}' {
            depth = depth.saturating_sub(1);
        }
        out.push(c);
        i += 1;
    }
    out
}

pub fn check_value(v: &RVal, acc: &mut Acc, full: bool) {
    acc.eval();
    if v.is_container() || matches!(v, RVal::Num(RNum::F(_))) {
        acc.nontrivial += 1;
    }
    let bytes = enc(v);
    let ctx = || json!({"value": format!("{:?}", v), "hex": hex(&bytes)});
    let (compact, pretty) = match guard(|| (jsonb::to_string(&bytes), jsonb::to_pretty_string(&bytes))) {
        Ok(x) => x,
        Err(p) => {
            acc.vio(&format!("render:{}", panic_class(&p)), ctx);
            return;
        }
    };
    for (name, text) in [("to_string", &compact), ("to_pretty_string", &pretty)] {
        match strict_json(text.as_bytes()) {
            Err(why) => {
                acc.outcome("not-strict-json");
                let has_raw_ctl = text.bytes().any(|b| b < 0x20 && b != b'\n');
                let class = if has_raw_ctl { format!("{}:raw-control-character-in-output", name) } else { format!("{}:not-RFC8259", name) };
                acc.vio(&class, || json!({"ctx": ctx(), "text": text, "why": why}));
            }
            Ok(parsed) => {
                acc.outcome("strict-json-ok");
                if !parsed.json_eq(v) {
                    acc.vio(&format!("{}:denotes-a-different-document", name), || json!({"ctx": ctx(), "text": text, "parsed": format!("{:?}", parsed)}));
                }
            }
        }
        if full {
            // equality under the crate's own `==`, with either side on the left
            match guard(|| jsonb::parse_value(text.as_bytes()).map(|x| { let o = to_value(v); (x == o && o == x, x.to_vec()) })) {
                Err(p) => acc.vio(&format!("{}:parse_value:{}", name, panic_class(&p)), ctx),
                Ok(Err(e)) => acc.vio(&format!("{}:parse_value-rejects-own-rendering", name), || json!({"ctx": ctx(), "text": text, "err": format!("{:?}", e)})),
                Ok(Ok((eq, re))) => {
                    if !eq {
                        acc.vio(&format!("{}:parse_value-not-equal-to-original", name), || json!({"ctx": ctx(), "text": text}));
                    }
                    if v.nonneg_ints_unsigned() && re != bytes {
                        acc.vio(&format!("{}:parse_value-reencodes-differently", name), || json!({"ctx": ctx(), "text": text, "reencoded": hex(&re)}));
                    }
                }
            }
            // the other two readers that take text: `from_slice` (text fall-back) and the lazy reader
            match guard(|| {
                let o = to_value(v);
                let a = jsonb::from_slice(text.as_bytes()).map(|x| (x == o && o == x, x.to_vec()));
                let l = jsonb::parse_lazy_value(text.as_bytes()).map(|l| {
                    let mut w = Vec::new();
                    l.write_to_vec(&mut w);
                    (l.to_vec(), w, l.to_value().into_owned() == o)
                });
                (a, l)
            }) {
                Err(p) => acc.vio(&format!("{}:from_slice-or-parse_lazy_value:{}", name, panic_class(&p)), ctx),
                Ok((a, l)) => {
                    match a {
                        Err(e) => acc.vio(&format!("{}:from_slice-rejects-own-rendering", name), || json!({"ctx": ctx(), "text": text, "err": format!("{:?}", e)})),
                        Ok((eq, re)) => {
                            if !eq || (v.nonneg_ints_unsigned() && re != bytes) {
                                acc.vio(&format!("{}:from_slice-not-the-original", name), || json!({"ctx": ctx(), "text": text, "reencoded": hex(&re)}));
                            }
                        }
                    }
                    match l {
                        Err(e) => acc.vio(&format!("{}:parse_lazy_value-rejects-own-rendering", name), || json!({"ctx": ctx(), "text": text, "err": format!("{:?}", e)})),
                        Ok((tv, w, eq)) => {
                            if !eq || (v.nonneg_ints_unsigned() && (tv != bytes || w != bytes)) {
                                acc.vio(&format!("{}:parse_lazy_value-not-the-original", name), || json!({"ctx": ctx(), "text": text, "to_vec": hex(&tv), "write_to_vec": hex(&w)}));
                            }
                        }
                    }
                }
            }
        }
    }
    if strip_insignificant_ws(&pretty) != compact {
        acc.vio("pretty:differs-from-compact-beyond-whitespace", || json!({"ctx": ctx(), "compact": compact, "pretty": pretty}));
    }
    if full {
        if let Some(t) = tokens(&compact) {
            let exp = pretty_from_tokens(&t);
            if collapse_empty(&pretty) != exp {
                acc.vio("pretty:layout-not-two-space-one-member-per-line", || json!({"ctx": ctx(), "expected": exp, "pretty": pretty}));
            }
        }
    }
    acc.sample(|| json!({"value": format!("{:?}", v), "compact": compact, "pretty": pretty}));
}

fn float_block(mk: impl Fn(u64) -> f64, b: u64, acc: &mut Acc) {
    for lo in 0..(1u64 << 16) {
        let f = mk((b << 16) | lo);
        if !f.is_finite() {
            continue;
        }
        float_one(f, acc);
    }
    acc.evals(1 << 16);
    acc.nontrivial += 1 << 16;
}

fn float_one(f: f64, acc: &mut Acc) {
    let v = RVal::f(f);
    let bytes = enc(&v);
    let text = match guard(|| jsonb::to_string(&bytes)) {
        Ok(t) => t,
        Err(p) => {
            acc.vio(&format!("render:{}", panic_class(&p)), || json!({"float_bits": format!("{:#x}", f.to_bits())}));
            return;
        }
    };
    match strict_json(text.as_bytes()) {
        Ok(RVal::Num(n)) if refmodel::val::num_cmp(&n, &RNum::f(f)) == std::cmp::Ordering::Equal && (n.as_float().map(|x| x.to_bits()) == Some(f.to_bits()) || f == 0.0 || n.as_int().is_some()) => {}
        other => acc.vio("to_string:float-text-denotes-a-different-number", || json!({"float_bits": format!("{:#x}", f.to_bits()), "text": text, "parsed": format!("{:?}", other)})),
    }
    match guard(|| jsonb::parse_value(text.as_bytes()).map(|x| x.to_vec())) {
        Ok(Ok(re)) if re == bytes => {}
        other => acc.vio("to_string:float-does-not-round-trip-through-text", || json!({"float_bits": format!("{:#x}", f.to_bits()), "text": text, "reparsed": format!("{:?}", other.map(|r| r.map(|b| hex(&b))))})),
    }
}

pub fn spaces(tier: Tier) -> Vec<Space<'static>> {
    let mut sp: Vec<Space> = vec![];
    let d2 = univ::d2();
    sp.push(Space::new("d2", d2.len() as u64, move |i, acc| check_value(&d2[i as usize], acc, true)));
    let d1q: Vec<RVal> = univ::d1q().iter().filter(|v| v.all_finite()).cloned().collect();
    sp.push(Space::new("d1q", d1q.len() as u64, move |i, acc| check_value(&d1q[i as usize], acc, true)));
    sp.push(Space::new("allcp-value+key+whole-document", univ::N_CHARS * 3, |i, acc| {
        let s = univ::nth_char(i / 3).to_string();
        let v = match i % 3 {
            0 => RVal::Arr(vec![RVal::Str(s), RVal::u(1)]),
            1 => {
                let mut m = std::collections::BTreeMap::new();
                m.insert(s, RVal::u(1));
                RVal::Obj(m)
            }
            _ => RVal::Str(format!("a{}", s)),
        };
        check_value(&v, acc, true)
    }));
    {
        let ss = univ::sstr();
        sp.push(Space::new("sstr as whole documents", ss.len() as u64, move |i, acc| check_value(&RVal::Str(ss[i as usize].clone()), acc, true)));
    }
    let ss = univ::sstr();
    sp.push(Space::new("sstr-nested-depth0-3", (ss.len() * ss.len() * 4) as u64, move |i, acc| {
        let i = i as usize;
        let depth = i % 4;
        let k = &ss[(i / 4) / ss.len()];
        let s = &ss[(i / 4) % ss.len()];
        let mut m = std::collections::BTreeMap::new();
        m.insert(k.clone(), RVal::Str(s.clone()));
        let mut v = RVal::Obj(m);
        for d in 0..depth {
            v = if d % 2 == 0 { RVal::Arr(vec![RVal::Str(s.clone()), v]) } else { RVal::obj(vec![("o", v)]) };
        }
        check_value(&v, acc, true)
    }));
    // every string of <= 4 characters over the characters the renderer has to escape or that look
    // like parts of an escape, as a value and as a key
    {
        const CH: [char; 9] = ['\\', '"', 'a', '/', '\n', '\u{1}', 'é', 'u', '\u{7f}'];
        let n = CH.len() as u64;
        let total: u64 = (0..=4u32).map(|k| n.pow(k)).sum();
        sp.push(Space::new("strings: every sequence of <= 4 characters over {\\ \" a / LF U+0001 é u DEL}, as value, key and whole document", total, move |idx, acc| {
            let mut i = idx;
            let mut len = 0u32;
            let mut c = 1u64;
            while i >= c {
                i -= c;
                c *= n;
                len += 1;
            }
            let mut s = String::new();
            for _ in 0..len {
                s.push(CH[(i % n) as usize]);
                i /= n;
            }
            let mut m = std::collections::BTreeMap::new();
            m.insert(s.clone(), RVal::Arr(vec![RVal::Str(s.clone()), RVal::u(1)]));
            check_value(&RVal::Obj(m), acc, true);
            // and as a document that is just this string
            check_value(&RVal::Str(s), acc, true)
        }));
    }
    {
        let tv = refmodel::gen::tagv_docs();
        sp.push(Space::new("tag-like payloads and keyword keys", tv.len() as u64, move |i, acc| check_value(&tv[i as usize], acc, true)));
    }
    let b = univ::b64_finite();
    sp.push(Space::new("b64-finite", b.len() as u64, move |i, acc| check_value(&RVal::Arr(vec![RVal::Num(b[i as usize]), RVal::Null]), acc, true)));
    sp.push(Space::new("floats-top16", 1 << 16, |i, acc| {
        let f = f64::from_bits(i << 48);
        acc.eval();
        if f.is_finite() {
            acc.nontrivial += 1;
            float_one(f, acc);
        }
    }));
    // whole-number and short-decimal floats: d x 10^k (the renderer writes them with an exponent and
    // no fraction, e.g. 1e16), powers of two, and integers +- 0.5
    sp.push(Space::new("floats: d x 10^k, 2^k, n + 0.5", 9 * 61 * 2 + 200, |i, acc| {
        let f = if i < 9 * 61 * 2 {
            let neg = i % 2 == 1;
            let d = (i / 2) % 9 + 1;
            let k = (i / 18) as i32 - 30;
            let v: f64 = format!("{}e{}", d, k).parse().unwrap();
            if neg { -v } else { v }
        } else {
            let j = i - 9 * 61 * 2;
            if j < 100 { (2.0f64).powi(j as i32 - 20) } else { (j - 100) as f64 * 1e15 + 0.5 }
        };
        acc.eval();
        acc.nontrivial += 1;
        float_one(f, acc);
        check_value(&RVal::Arr(vec![RVal::f(f), RVal::s("x")]), acc, true);
    }));
    sp.push(Space::new("floats-exp-x-mantissa", 2046 * 2 * if tier.thorough() { 2000 } else { 64 }, move |i, acc| {
        let per = if tier.thorough() { 2000 } else { 64 };
        let m = i % per;
        let e = (i / per) % 2046 + 0; // biased exponent 0..2045 (finite)
        let s = i / per / 2046;
        // mantissa patterns: low bits, high bits, alternating, all-ones prefixes
        let mant: u64 = match m % 4 {
            0 => m / 4,
            1 => ((m / 4) << 41) & 0xF_FFFF_FFFF_FFFF,
            2 => 0xF_FFFF_FFFF_FFFF - (m / 4),
            _ => (0x5_5555_5555_5555u64.rotate_left((m / 4) as u32 % 52)) & 0xF_FFFF_FFFF_FFFF,
        };
        let f = f64::from_bits((s << 63) | (e << 52) | mant);
        acc.eval();
        acc.nontrivial += 1;
        float_one(f, acc);
    }));
    {
        let u = refmodel::gen::d3e_uni();
        let n = u.count(3);
        sp.push(Space::new("d3e (depth 3 over {\"\", 1}: empty strings nested at every level)", n, move |i, acc| {
            let v = u.nth(3, i);
            check_value(&v, acc, true)
        }));
    }
    sp.push(Space::new("wide (4-6 siblings over 5 kinds)", refmodel::gen::wide_count(), |i, acc| crate::checks::scale::wide_deep_doc(&refmodel::gen::wide_nth(i), acc, 1)));
    sp.push(Space::new("deep (4-6 levels, 5 sibling patterns per level)", refmodel::gen::deep_count(), |i, acc| crate::checks::scale::wide_deep_doc(&refmodel::gen::deep_nth(i), acc, 1)));
    {
        let sz = std::sync::Arc::new(crate::checks::scale::sizes(tier));
        let n = sz.len() as u64 * crate::checks::scale::N_FAMILIES;
        sp.push(Space::new("size sweep: every N up to the limit x 5 families", n, move |i, acc| {
            let d = crate::checks::scale::sized_doc((i % crate::checks::scale::N_FAMILIES) as u8, sz[(i / crate::checks::scale::N_FAMILIES) as usize]);
            crate::checks::scale::render_doc(&d, acc)
        }));
        sp.push(Space::new("depth sweep: every depth 1..=300 x 3 shapes", 300, |i, acc| crate::checks::scale::depth_ops(i as usize + 1, acc, 1)));
    }
    let sd = crate::checks::scale::docs().clone();
    sp.push(Space::new("scale (counts/lengths/offsets across 2^8, 2^16, 2^20)", sd.len() as u64, move |i, acc| crate::checks::scale::render_doc(&sd[i as usize], acc)));
    if tier.thorough() {
        let d2k = univ::d2k();
        sp.push(Space::new("d2k", d2k.count(2), move |i, acc| check_value(&d2k.nth(2, i), acc, true)));
        let d1: Vec<RVal> = univ::d1().iter().filter(|v| v.all_finite()).cloned().collect();
        sp.push(Space::new("d1", d1.len() as u64, move |i, acc| check_value(&d1[i as usize], acc, true)));
        sp.push(Space::new("floats-all-f32-widened", 1 << 16, |b, acc| float_block(|x| f32::from_bits(x as u32) as f64, b, acc)));
        sp.push(Space::new("floats-all-f64-high32", 1 << 16, |b, acc| float_block(|x| f64::from_bits(x << 32), b, acc)));
    }
    sp
}

pub fn meta(tier: Tier) -> (String, serde_json::Value, Vec<String>) {
    (
        "every finite-number document of the universes, every Unicode scalar value as a string value and as a key, SSTR strings nested at depth 0-3, every float of the stated complete pattern sets: both renderings must pass the independent strict RFC 8259 parser and denote the document; parse_value must give an equal value and identical bytes; pretty must equal compact after removing insignificant whitespace and follow the two-space/one-member-per-line layout. Non-trivial = container or float.".into(),
        json!({"floats": if tier.thorough() {"2^16 top patterns; 2046 exponents x 2 signs x 2000 mantissas; all 2^32 f32 widened; all 2^32 f64 high-word patterns"} else {"2^16 top patterns; 2046 exponents x 2 signs x 64 mantissas"}, "unspecified": "whitespace inside empty containers in pretty mode"}),
        vec!["Rust std's correctly rounded str::parse::<f64> is the float oracle inside the strict parser".into()],
    )
}
