//! C11 — functions give the same answer for JSON text as for its JSONB encoding.
use crate::checks::c05::{keypaths, names_for, to_keypath};
use crate::conv::*;
use crate::harness::*;
use crate::univ;
use refmodel::layout::{enc, hex};
use refmodel::ops;
use refmodel::text::relaxed_json;
use refmodel::RVal;
use serde_json::json;
use std::collections::BTreeSet;
use std::sync::Arc;

fn ob(r: Option<Vec<u8>>) -> String {
    match r {
        Some(b) => format!("Some({})", hex(&b)),
        None => "None".into(),
    }
}
/// every output buffer already holds three bytes (a caller appending results to one buffer): the
/// observation includes them, so a form that overwrites or drops earlier content differs from one
/// that appends
fn used() -> Vec<u8> {
    vec![0xEE, 0x20, 0x00]
}
fn rb(r: Result<(), jsonb::Error>, buf: Vec<u8>) -> String {
    match r {
        Ok(()) => format!("Ok({})", hex(&buf)),
        Err(_) => format!("Err(buffer {})", hex(&buf)),
    }
}
fn text_obs(s: String) -> String {
    match relaxed_json(s.as_bytes()) {
        Ok(p) => format!("denotes {:?}", p.val),
        Err(_) => format!("not-json {:?}", s),
    }
}

/// every single-document observation of `d` (text or binary), as (label, observation) pairs.
/// `v` is the document's tree (used only to derive the argument domains).
pub fn observe1(v: &RVal, d: &[u8], serde_ok: bool) -> Vec<(String, String)> {
    let mut o: Vec<(String, String)> = vec![];
    macro_rules! p {
        ($l:expr, $e:expr) => {
            o.push(($l.to_string(), $e));
        };
    }
    p!("array_length", format!("{:?}", jsonb::array_length(d)));
    p!("type_of", format!("{:?}", jsonb::type_of(d).ok()));
    p!("is_array/is_object", format!("{:?}", (jsonb::is_array(d), jsonb::is_object(d))));
    let len = ops::array_length(v).unwrap_or(0);
    for i in 0..=len + 1 {
        p!(format!("get_by_index({})", i), ob(jsonb::get_by_index(d, i)));
    }
    let all_names = matches!(v, RVal::Obj(o) if !o.is_empty() && o.keys().all(|k| crate::checks::c05::UNICODE_CASE_KEYS.contains(&k.as_str())));
    for name in names_for(v).into_iter().take(if all_names { 64 } else { 8 }) {
        for ic in [false, true] {
            p!(format!("get_by_name({:?},{})", name, ic), ob(jsonb::get_by_name(d, &name, ic)));
        }
        let mut b = used();
        let r = jsonb::delete_by_name(d, &name, &mut b);
        p!(format!("delete_by_name({:?})", name), rb(r, b));
    }
    for path in keypaths(v, v.depth() + 1, true) {
        let kp: Vec<_> = path.iter().map(to_keypath).collect();
        p!(format!("get_by_keypath({:?})", path), ob(jsonb::get_by_keypath(d, kp.iter())));
        let mut b = used();
        let r = jsonb::delete_by_keypath(d, kp.iter(), &mut b);
        p!(format!("delete_by_keypath({:?})", path), rb(r, b));
    }
    let mut cands: Vec<Vec<u8>> = names_for(v).into_iter().take(4).map(|s| s.into_bytes()).collect();
    cands.push(vec![0xFF]);
    for mask in 0u32..(1 << cands.len()) {
        let ks: Vec<&[u8]> = (0..cands.len()).filter(|i| mask & (1 << i) != 0).map(|i| &cands[i][..]).collect();
        p!(format!("exists_all/any_keys(mask {})", mask), format!("{:?}", (jsonb::exists_all_keys(d, ks.iter().copied()), jsonb::exists_any_keys(d, ks.iter().copied()))));
    }
    p!("object_keys", ob(jsonb::object_keys(d)));
    p!("object_each", format!("{:?}", jsonb::object_each(d).map(|v| v.into_iter().map(|(k, x)| (hex(&k), hex(&x))).collect::<Vec<_>>())));
    p!("array_values", format!("{:?}", jsonb::array_values(d).map(|v| v.into_iter().map(|x| hex(&x)).collect::<Vec<_>>())));
    p!("null/bool", format!("{:?}", (jsonb::is_null(d), jsonb::as_null(d), jsonb::is_boolean(d), jsonb::as_bool(d), jsonb::to_bool(d).ok())));
    p!("number", format!("{:?}", (jsonb::is_number(d), jsonb::as_number(d).map(|n| from_num(&n)), jsonb::is_i64(d), jsonb::as_i64(d), jsonb::to_i64(d).ok(), jsonb::is_u64(d), jsonb::as_u64(d), jsonb::to_u64(d).ok())));
    p!("f64", format!("{:?}", (jsonb::is_f64(d), jsonb::as_f64(d).map(|f| f.to_bits()), jsonb::to_f64(d).ok().map(|f| if f.is_nan() { 1 } else { f.to_bits() }))));
    p!("string", format!("{:?}", (jsonb::is_string(d), jsonb::as_str(d).map(|s| s.to_string()), jsonb::to_str(d).ok())));
    if v.all_finite() {
        // the rendering of non-finite numbers is outside C03/C11 (not JSON)
        p!("to_string", text_obs(jsonb::to_string(d)));
        p!("to_pretty_string", text_obs(jsonb::to_pretty_string(d)));
    }
    if serde_ok {
        p!("to_serde_json", format!("{:?}", jsonb::to_serde_json(d).ok().map(|s| from_serde(&s))));
        p!("to_serde_json_object", format!("{:?}", jsonb::to_serde_json_object(d).ok().map(|o| o.map(|m| from_serde(&serde_json::Value::Object(m))))));
    }
    {
        let mut k = vec![];
        jsonb::convert_to_comparable(d, &mut k);
        p!("convert_to_comparable", hex(&k));
    }
    {
        let seen = std::cell::RefCell::new(Vec::<Vec<u8>>::new());
        let r = jsonb::traverse_check_string(d, |s| {
            seen.borrow_mut().push(s.to_vec());
            false
        });
        let mut s = seen.into_inner();
        s.sort();
        p!("traverse_check_string", format!("{} {:?}", r, s.iter().map(|x| hex(x)).collect::<Vec<_>>()));
        p!("traverse_check_string(==a)", format!("{}", jsonb::traverse_check_string(d, |s| s == b"a")));
    }
    let alen = len as i32;
    for i in [-alen - 1, -alen, -1, 0, 1, alen, i32::MAX] {
        let mut b = used();
        let r = jsonb::delete_by_index(d, i, &mut b);
        p!(format!("delete_by_index({})", i), rb(r, b));
    }
    {
        let mut b = used();
        let r = jsonb::array_distinct(d, &mut b);
        p!("array_distinct", rb(r, b));
        let mut b = used();
        let r = jsonb::strip_nulls(d, &mut b);
        p!("strip_nulls", rb(r, b));
    }
    let mut kc: Vec<String> = match v {
        RVal::Obj(m) => m.keys().cloned().collect(),
        _ => vec![],
    };
    kc.push("zz".into());
    for mask in 0u32..(1 << kc.len().min(3)) {
        let ks: BTreeSet<&str> = (0..kc.len().min(3)).filter(|i| mask & (1 << i) != 0).map(|i| kc[i].as_str()).collect();
        let mut b = used();
        let r = jsonb::object_delete(d, &ks, &mut b);
        p!(format!("object_delete({:?})", ks), rb(r, b));
        let mut b = used();
        let r = jsonb::object_pick(d, &ks, &mut b);
        p!(format!("object_pick({:?})", ks), rb(r, b));
    }
    for ps in crate::calls::PATH_MENU {
        let jp = || jsonb::jsonpath::parse_json_path(ps.as_bytes()).unwrap();
        p!(format!("path_exists({})", ps), format!("{:?}", jsonb::path_exists(d, jp()).ok()));
        p!(format!("path_match({})", ps), format!("{:?}", jsonb::path_match(d, jp()).ok()));
        for (n, f) in [("get_by_path", jsonb::get_by_path as fn(&[u8], jsonb::jsonpath::JsonPath, &mut Vec<u8>, &mut Vec<u64>) -> Result<(), jsonb::Error>), ("get_by_path_first", jsonb::get_by_path_first), ("get_by_path_array", jsonb::get_by_path_array)] {
            let (mut b, mut off) = (used(), vec![3u64]);
            let r = f(d, jp(), &mut b, &mut off);
            p!(format!("{}({})", n, ps), format!("{} {:?}", rb(r, b), off));
        }
    }
    // lazy value
    match jsonb::parse_lazy_value(d) {
        Ok(l) => {
            p!("lazy.to_vec", hex(&l.to_vec()));
            p!("lazy.array_length", format!("{:?}", l.array_length()));
            p!("lazy.to_value", format!("{:?}", from_value(&l.to_value())));
            let mut b = used();
            l.write_to_vec(&mut b);
            p!("lazy.write_to_vec", hex(&b));
        }
        Err(_) => { p!("lazy", "Err".to_string()); }
    }
    o
}

pub fn observe2(a: &[u8], b: &[u8]) -> Vec<(String, String)> {
    let mut o: Vec<(String, String)> = vec![];
    o.push(("compare".into(), format!("{:?}", jsonb::compare(a, b).ok())));
    o.push(("contains".into(), format!("{}", jsonb::contains(a, b))));
    let mut buf = used();
    let r = jsonb::concat(a, b, &mut buf);
    o.push(("concat".into(), rb(r, buf)));
    for pos in [0, -1, 1] {
        let mut buf = used();
        let r = jsonb::array_insert(a, pos, b, &mut buf);
        o.push((format!("array_insert({})", pos), rb(r, buf)));
    }
    let mut buf = used();
    let r = jsonb::array_intersection(a, b, &mut buf);
    o.push(("array_intersection".into(), rb(r, buf)));
    let mut buf = used();
    let r = jsonb::array_except(a, b, &mut buf);
    o.push(("array_except".into(), rb(r, buf)));
    o.push(("array_overlap".into(), format!("{:?}", jsonb::array_overlap(a, b).ok())));
    for (k, f) in [("a", true), ("zz", false)] {
        let mut buf = used();
        let r = jsonb::object_insert(a, k, b, f, &mut buf);
        o.push((format!("object_insert({:?},{})", k, f), rb(r, buf)));
    }
    o
}

pub struct TDoc {
    pub text: Vec<u8>,
    pub val: RVal,
    pub bytes: Vec<u8>,
    pub serde_ok: bool,
}

fn special_texts() -> Vec<&'static str> {
    vec![
        "12345678", "123456789", "-1234567", "1234567", "123456789012", "\"abc1xyz\"", "\"1230   \"", "\"abcDxyz\"", "[12345678]", "[1,2,3,4]", "-0", "1.0", "1e2", "1E+2", "0.0", "-0.0", "1.50", "18446744073709551615", "18446744073709551616",
        "-9223372036854775808", "9007199254740993", "{\"a\":1,\"a\":2}", "{\"b\":1,\"a\":{\"a\":null,\"a\":[1]}}", "\"\\u0061\"", "\"a\\nb\"", "\"\\ud83c\\udf95\"", "[1, 2]", "{\"a\" : [ 1 ,\"a\" ] }", "[\n1\n]", "{\"a\":\"\\u0001\"}", "true ", "null\n",
        "[1.0,1,-1]", "[\"a\",\"a\",\"b\"]", "{\"a\":null,\"b\":{\"c\":null}}", "\"true\"", "\"12\"", "\"-1.5e1\"", "[[],{}]", "{}", "[]", "\"\"", "0", "[null,[null]]", "{\"\":\"\"}", "{\"é\":\"💎\"}", "[\"\\uD800\"]", "1e400", "[-1e400]", "9007199254740992", "18446744073709551614", "1e18", "1000000000000000000", "[0,-0]", "{\"a\":1,\"a\":2}", "\"a\\/b\"", "{\"a\\/\":\"<\\/script>\"}", "[\"\\u002f\",\"\\u002F\"]",
    ]
}

pub fn corpus(tier: Tier) -> Arc<Vec<TDoc>> {
    let mut texts: Vec<Vec<u8>> = vec![];
    for v in univ::d2().iter() {
        texts.push(refmodel::text::print(v).into_bytes());
    }
    for v in univ::d1q().iter().filter(|v| v.all_finite()).step_by(if tier.thorough() { 1 } else { 6 }) {
        texts.push(refmodel::text::print(v).into_bytes());
    }
    for v in refmodel::gen::keyorder_docs().iter().step_by(if tier.thorough() { 1 } else { 2 }) {
        texts.push(refmodel::text::print(v).into_bytes());
    }
    for v in crate::checks::c05::case_objects().iter().step_by(if tier.thorough() { 1 } else { 3 }) {
        texts.push(refmodel::text::print(v).into_bytes());
    }
    for (n, v) in refmodel::gen::strkey_docs().iter().enumerate().step_by(if tier.thorough() { 1 } else { 3 }) {
        texts.push(refmodel::text::print(v).into_bytes());
        // the same document in the other spellings (all \\uXXXX / short escapes including \\/)
        if tier.thorough() || n % 2 == 0 {
            texts.push(refmodel::text::print_styled(v, 1 + (n / 2 % 2) as u8).into_bytes());
        }
    }
    for v in univ::d2().iter().step_by(if tier.thorough() { 1 } else { 4 }) {
        texts.push(refmodel::text::print_styled(v, 3).into_bytes());
    }
    for v in refmodel::gen::tagv_docs().iter().step_by(if tier.thorough() { 1 } else { 5 }) {
        texts.push(refmodel::text::print(v).into_bytes());
    }
    for s in special_texts() {
        texts.push(s.as_bytes().to_vec());
    }
    let mut out = vec![];
    let mut seen = std::collections::HashSet::new();
    for t in texts {
        if t.first() == Some(&b' ') || !seen.insert(t.clone()) {
            continue;
        }
        let Ok(p) = relaxed_json(&t) else { continue };
        if p.value_unspecified {
            continue;
        }
        // to_serde_json's text branch is documented to use serde_json: only RFC 8259 texts with in-range numbers, and not "-0"
        let serde_ok = refmodel::text::strict_json(&t).is_ok() && p.val.all_finite() && !t.windows(2).any(|w| w == b"-0") && !String::from_utf8_lossy(&t).contains("\\u");
        let bytes = enc(&p.val);
        out.push(TDoc { text: t, val: p.val, bytes, serde_ok });
    }
    Arc::new(out)
}

/// JSON text of `v` in which every string (keys and values) is spelled with \\uXXXX escapes only
pub fn escaped_text(v: &RVal, out: &mut String) {
    fn esc(s: &str, out: &mut String) {
        out.push('"');
        for u in s.encode_utf16() {
            out.push_str(&format!("\\u{:04x}", u));
        }
        out.push('"');
    }
    match v {
        RVal::Str(s) => esc(s, out),
        RVal::Arr(a) => {
            out.push('[');
            for (i, x) in a.iter().enumerate() {
                if i > 0 {
                    out.push_str(", ");
                }
                escaped_text(x, out);
            }
            out.push(']');
        }
        RVal::Obj(o) => {
            out.push('{');
            for (i, (k, x)) in o.iter().enumerate() {
                if i > 0 {
                    out.push_str(", ");
                }
                esc(k, out);
                out.push_str(": ");
                escaped_text(x, out);
            }
            out.push('}');
        }
        x => out.push_str(&refmodel::text::print(x)),
    }
}

/// boundary-argument observations for larger documents
fn observe_lite(v: &RVal, d: &[u8]) -> Vec<(String, String)> {
    let mut o: Vec<(String, String)> = vec![];
    let n = ops::array_length(v).unwrap_or(0);
    o.push(("array_length".into(), format!("{:?}", jsonb::array_length(d))));
    o.push(("type_of".into(), format!("{:?}", jsonb::type_of(d).ok())));
    for i in [0, n / 2, n.saturating_sub(1), n] {
        o.push((format!("get_by_index({})", i), ob(jsonb::get_by_index(d, i))));
    }
    let keys = crate::checks::scale::keys_of(v);
    for k in &keys {
        for ic in [false, true] {
            o.push((format!("get_by_name({:?},{})", k, ic), ob(jsonb::get_by_name(d, k, ic))));
        }
        let kp = [jsonb::keypath::KeyPath::Name(std::borrow::Cow::Owned(k.clone()))];
        o.push((format!("get_by_keypath({:?})", k), ob(jsonb::get_by_keypath(d, kp.iter()))));
        let ks = [k.as_bytes()];
        o.push((format!("exists_keys({:?})", k), format!("{:?}", (jsonb::exists_all_keys(d, ks.iter().copied()), jsonb::exists_any_keys(d, ks.iter().copied())))));
        for ps in [format!("$.{}", k), format!("$[\"{}\"]", k), format!("$.{} > 3", k), format!("$.*?(exists($.{}))", k)] {
            if let Ok(jp) = jsonb::jsonpath::parse_json_path(ps.as_bytes()) {
                o.push((format!("path_exists({})", ps), format!("{:?}", jsonb::path_exists(d, jp.clone()).ok())));
                o.push((format!("path_match({})", ps), format!("{:?}", jsonb::path_match(d, jp.clone()).ok())));
                let (mut b, mut off) = (used(), vec![3u64]);
                let r = jsonb::get_by_path(d, jp, &mut b, &mut off);
                o.push((format!("get_by_path({})", ps), format!("{} {:?}", rb(r, b), off)));
            }
        }
        let mut b = used();
        let r = jsonb::delete_by_name(d, k, &mut b);
        o.push((format!("delete_by_name({:?})", k), rb(r, b)));
    }
    for ps in ["$[*]", "$.*", "$[last]", "$[0 to 2]"] {
        let jp = jsonb::jsonpath::parse_json_path(ps.as_bytes()).unwrap();
        o.push((format!("path_exists({})", ps), format!("{:?}", jsonb::path_exists(d, jp.clone()).ok())));
        let (mut b, mut off) = (used(), vec![3u64]);
        let r = jsonb::get_by_path(d, jp, &mut b, &mut off);
        o.push((format!("get_by_path({})", ps), format!("{} {:?}", rb(r, b), off)));
    }
    o.push(("object_keys".into(), ob(jsonb::object_keys(d))));
    o.push(("to_string".into(), text_obs(jsonb::to_string(d))));
    let mut k = vec![];
    jsonb::convert_to_comparable(d, &mut k);
    o.push(("convert_to_comparable".into(), hex(&k)));
    let mut b = used();
    let r = jsonb::strip_nulls(d, &mut b);
    o.push(("strip_nulls".into(), rb(r, b)));
    o
}

pub fn spaces(tier: Tier) -> Vec<Space<'static>> {
    let mut sp: Vec<Space> = vec![];
    // larger documents (texts of 1 KiB and more), plain and fully \\u-escaped spelling
    {
        let sizes: Vec<usize> = if tier.thorough() { (0..=400).collect() } else { (0..=130).collect() };
        let ns = sizes.len() as u64;
        sp.push(Space::new("size sweep: N-member documents as plain and as fully escaped text vs JSONB", ns * 3, move |i, acc| {
            let n = sizes[(i / 3) as usize];
            let v = match i % 3 {
                0 => crate::checks::scale::sized(1, n),
                1 => RVal::Obj((0..n).map(|k| (format!("clé{}", k), if k % 4 == 0 { RVal::Null } else { RVal::Str(format!("v{}é", k)) })).collect()),
                _ => crate::checks::scale::sized(2, n),
            };
            let bytes = enc(&v);
            let plain = refmodel::text::print(&v);
            let mut escd = String::new();
            escaped_text(&v, &mut escd);
            let bin = match guard(|| observe_lite(&v, &bytes)) {
                Ok(x) => x,
                Err(p) => {
                    acc.vio(&format!("binary-form:{}", panic_class(&p)), || json!({"N": n}));
                    return;
                }
            };
            for (form, t) in [("plain-text", &plain), ("escaped-text", &escd)] {
                acc.nontrivial += 1;
                match guard(|| observe_lite(&v, t.as_bytes())) {
                    Err(p) => acc.vio(&format!("{}:{}", form, panic_class(&p)), || json!({"N": n})),
                    Ok(r) => {
                        for ((l, o1), (_, o2)) in bin.iter().zip(r.iter()) {
                            acc.eval();
                            if o1 != o2 {
                                let f = l.split('(').next().unwrap_or("?");
                                acc.vio(&format!("text!=binary:{}:{}", f, form), || json!({"N": n, "text_len": t.len(), "call": l, "binary": o1.chars().take(200).collect::<String>(), "text": o2.chars().take(200).collect::<String>()}));
                            }
                        }
                    }
                }
            }
        }));
    }
    // deeper documents: the null-rich depth-3 universe, the deep (4-6 levels) and wide families
    {
        let d3 = univ::d3();
        let n3 = d3.count(3);
        let st3 = (n3 / if tier.thorough() { 20000 } else { 4000 }).max(1);
        let (nd, nw) = (refmodel::gen::deep_count(), refmodel::gen::wide_count());
        let (sd, sw) = if tier.thorough() { (5, 11) } else { (29, 61) };
        let total = n3.div_ceil(st3) + nd.div_ceil(sd) + nw.div_ceil(sw);
        sp.push(Space::new("deeper documents (depth-3 null-rich universe, deep and wide families; strided) as text vs JSONB", total, move |i, acc| {
            let a = n3.div_ceil(st3);
            let b = nd.div_ceil(sd);
            let v = if i < a { d3.nth(3, i * st3) } else if i < a + b { refmodel::gen::deep_nth((i - a) * sd) } else { refmodel::gen::wide_nth((i - a - b) * sw) };
            if !v.all_finite() {
                return;
            }
            let bytes = enc(&v);
            let plain = refmodel::text::print(&v);
            let bin = match guard(|| observe_lite(&v, &bytes)) {
                Ok(x) => x,
                Err(p) => {
                    acc.vio(&format!("binary-form:{}", panic_class(&p)), || json!({"doc": plain}));
                    return;
                }
            };
            acc.nontrivial += 1;
            match guard(|| observe_lite(&v, plain.as_bytes())) {
                Err(p) => acc.vio(&format!("plain-text:{}", panic_class(&p)), || json!({"doc": plain})),
                Ok(r) => {
                    for ((l, o1), (_, o2)) in bin.iter().zip(r.iter()) {
                        acc.eval();
                        if o1 != o2 {
                            let f = l.split('(').next().unwrap_or("?");
                            acc.vio(&format!("text!=binary:{}", f), || json!({"doc": plain, "call": l, "binary": o1.chars().take(200).collect::<String>(), "text": o2.chars().take(200).collect::<String>()}));
                        }
                    }
                }
            }
        }));
    }
    let c = corpus(tier);
    let c1 = c.clone();
    sp.push(Space::new("single-document-functions", c.len() as u64, move |i, acc| {
        let d = &c1[i as usize];
        let ctx = || json!({"text": String::from_utf8_lossy(&d.text), "jsonb": hex(&d.bytes)});
        let bin = match guard(|| observe1(&d.val, &d.bytes, d.serde_ok)) {
            Ok(x) => x,
            Err(p) => {
                acc.vio(&format!("binary-form:{}", panic_class(&p)), ctx);
                return;
            }
        };
        let txt = match guard(|| observe1(&d.val, &d.text, d.serde_ok)) {
            Ok(x) => x,
            Err(p) => {
                acc.vio(&format!("text-form:{}", panic_class(&p)), ctx);
                return;
            }
        };
        acc.nontrivial += 1;
        for ((lb, ob), (lt, ot)) in bin.iter().zip(txt.iter()) {
            acc.eval();
            debug_assert_eq!(lb, lt);
            if ob != ot {
                acc.outcome("differs");
                let f = lb.split('(').next().unwrap_or("?");
                acc.vio(&format!("text!=binary:{}", f), || json!({"ctx": ctx(), "call": lb, "binary_result": ob, "text_result": ot}));
            } else {
                acc.outcome("same");
            }
        }
        acc.sample(|| json!({"text": String::from_utf8_lossy(&d.text), "n_observations": bin.len()}));
    }));
    // two-document functions: all 2^2 representation choices
    let sub: Arc<Vec<usize>> = Arc::new({
        let n = c.len();
        let want = if tier.thorough() { 700 } else { 260 };
        let mut s: Vec<usize> = (0..n).step_by((n / want).max(1)).collect();
        // always include the special texts (they are at the end)
        for k in n.saturating_sub(special_texts().len())..n {
            s.push(k);
        }
        s.sort();
        s.dedup();
        s
    });
    let (c2, s2) = (c.clone(), sub.clone());
    sp.push(Space::new("two-document-functions-all-4-configurations", sub.len() as u64, move |i, acc| {
        let a = &c2[s2[i as usize]];
        for &j in s2.iter() {
            let b = &c2[j];
            let ctx = || json!({"a_text": String::from_utf8_lossy(&a.text), "b_text": String::from_utf8_lossy(&b.text)});
            let bb = match guard(|| observe2(&a.bytes, &b.bytes)) {
                Ok(x) => x,
                Err(p) => {
                    acc.vio(&format!("binary-form:{}", panic_class(&p)), ctx);
                    continue;
                }
            };
            for (cfg, x, y) in [("text,binary", &a.text, &b.bytes), ("binary,text", &a.bytes, &b.text), ("text,text", &a.text, &b.text)] {
                acc.nontrivial += 1;
                match guard(|| observe2(x, y)) {
                    Err(p) => acc.vio(&format!("{}:{}", cfg, panic_class(&p)), ctx),
                    Ok(r) => {
                        for ((l, o1), (_, o2)) in bb.iter().zip(r.iter()) {
                            acc.eval();
                            if o1 != o2 {
                                let f = l.split('(').next().unwrap_or("?");
                                acc.vio(&format!("text!=binary:{}:{}", f, cfg), || json!({"ctx": ctx(), "call": l, "all_binary": o1, "this_configuration": o2}));
                            }
                        }
                    }
                }
            }
        }
    }));
    sp
}

pub fn meta(tier: Tier) -> (String, serde_json::Value, Vec<String>) {
    (
        "configurations: for every JSON text of the corpus (renderings of D2 and D1q plus ~50 hand-written texts: digit strings that look like binary headers, -0, 1.0 vs 1, exponents, duplicate keys, escapes, inner whitespace, huge numbers) that does not start with a space, the document it denotes is computed by the model and encoded; every public function taking a document is called on the text and on the encoding with every argument derived from the document, and the observations must be identical (byte-identical JSONB outputs, same bool/Ordering/Number/String/Option, text renderings compared by denoted value, serde values structurally, same Ok/Err). Two-document functions are run in all four text/binary configurations on every ordered pair of a fixed subset. Non-trivial = every document / configuration.".into(),
        json!({"corpus": if tier.thorough() {"D2 + D1q + specials"} else {"D2 + every 6th of D1q + specials"}, "pair_subset": if tier.thorough() {700} else {260}, "excluded": "texts starting with a space (by the property); for to_serde_json: texts outside RFC 8259, out-of-range numbers, -0 and \\u escapes (its text branch is serde_json's own parser)"}),
        vec!["what a text denotes is decided by the model parser (C02 ties the implementation's parser to it)".into()],
    )
}
