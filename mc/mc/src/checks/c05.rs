//! C05 — read-only accessors on JSONB bytes agree with the document they encode.
use crate::conv::*;
use crate::harness::*;
use crate::univ;
use jsonb::keypath::KeyPath;
use refmodel::layout::{enc, hex, strict_dec};
use refmodel::ops::{self, KP};
use refmodel::val::is_nearest_double;
use refmodel::{RNum, RVal};
use serde_json::json;
use std::borrow::Cow;

pub fn to_keypath(p: &KP) -> KeyPath<'static> {
    match p {
        KP::Index(i) => KeyPath::Index(*i),
        KP::Name(s) => KeyPath::Name(Cow::Owned(s.clone())),
        KP::QuotedName(s) => KeyPath::QuotedName(Cow::Owned(s.clone())),
    }
}

/// check a returned sub-document: canonical and equal to the model's sub-tree
fn sub_ok(name: &str, got: &Option<Vec<u8>>, exp: &Option<RVal>, acc: &mut Acc, ctx: &dyn Fn() -> serde_json::Value) {
    match (got, exp) {
        (None, None) => acc.outcome("none"),
        (Some(g), Some(e)) => {
            acc.outcome("some");
            if *g != enc(e) {
                acc.vio(&format!("{}:wrong-sub-value", name), || json!({"ctx": ctx(), "expected": format!("{:?}", e), "observed_hex": hex(g), "observed": format!("{:?}", strict_dec(g))}));
            } else if let Err(why) = strict_dec(g) {
                acc.vio(&format!("{}:sub-value-not-canonical", name), || json!({"ctx": ctx(), "why": why}));
            }
        }
        (Some(g), None) => acc.vio(&format!("{}:returned-value-where-none-expected", name), || json!({"ctx": ctx(), "observed_hex": hex(g)})),
        (None, Some(e)) => acc.vio(&format!("{}:returned-none-where-value-expected", name), || json!({"ctx": ctx(), "expected": format!("{:?}", e)})),
    }
}

const EXTREMES: [i32; 4] = [i32::MIN, i32::MIN + 1, i32::MAX - 1, i32::MAX];

/// every key path of length <= maxlen whose steps are drawn from the document (real indices
/// from -len-2 to len+1 plus the i32 extremes, every key as Name and QuotedName, one absent
/// key, one wrong-kind step); a path stops after its first non-resolving step.
pub fn keypaths(v: &RVal, maxlen: usize, with_extremes: bool) -> Vec<Vec<KP>> {
    let mut out = vec![vec![]];
    fn rec(v: &RVal, prefix: &mut Vec<KP>, left: usize, ext: bool, out: &mut Vec<Vec<KP>>) {
        if left == 0 {
            return;
        }
        let mut cands: Vec<KP> = vec![];
        match v {
            RVal::Arr(a) => {
                let n = a.len() as i32;
                for i in (-n - 2)..=(n + 1) {
                    cands.push(KP::Index(i));
                }
                if ext {
                    for e in EXTREMES {
                        cands.push(KP::Index(e));
                    }
                }
                cands.push(KP::Name("a".into()));
            }
            RVal::Obj(o) => {
                for k in o.keys() {
                    cands.push(KP::Name(k.clone()));
                    cands.push(KP::QuotedName(k.clone()));
                }
                cands.push(KP::Name("zz".into()));
                cands.push(KP::Index(0));
                cands.push(KP::Index(-1));
            }
            _ => {
                cands.push(KP::Index(0));
                cands.push(KP::Name("a".into()));
            }
        }
        for c in cands {
            prefix.push(c);
            out.push(prefix.clone());
            if let Some(child) = ops::get_by_keypath(v, &prefix[prefix.len() - 1..]) {
                rec(&child, prefix, left - 1, ext, out);
            }
            prefix.pop();
        }
    }
    rec(v, &mut vec![], maxlen, with_extremes, &mut out);
    out
}

/// keys whose Unicode case mappings differ from their ASCII ones: KELVIN SIGN folds to k, sharp s
/// upper-cases to SS, dotted/dotless i; none of them may match under ASCII case-insensitivity
pub const UNICODE_CASE_KEYS: [&str; 13] = ["k", "K", "\u{212A}", "ß", "ẞ", "SS", "ss", "é", "É", "i", "I", "İ", "ı"];

pub fn names_for(v: &RVal) -> Vec<String> {
    let mut names: Vec<String> = vec!["zz".into(), "".into()];
    if let RVal::Obj(o) = v {
        if !o.is_empty() && o.keys().all(|k| UNICODE_CASE_KEYS.contains(&k.as_str())) {
            names.extend(UNICODE_CASE_KEYS.iter().map(|s| s.to_string()));
        }
    }
    // documents of the key-order universe are probed with every key of that universe
    if let RVal::Obj(o) = v {
        if !o.is_empty() && o.keys().all(|k| refmodel::gen::ORDER_KEYS.contains(&k.as_str())) {
            names.extend(refmodel::gen::ORDER_KEYS.iter().map(|s| s.to_string()));
        }
    }
    if let RVal::Obj(o) = v {
        for k in o.keys() {
            names.push(k.clone());
            names.push(k.to_uppercase());
            names.push(k.to_lowercase());
            names.push(k.to_ascii_uppercase());
            if !k.is_empty() {
                let mut cs: Vec<char> = k.chars().collect();
                cs.pop();
                names.push(cs.iter().collect());
            }
            names.push(format!("{}x", k));
        }
    }
    if let RVal::Arr(a) = v {
        for x in a {
            if let RVal::Str(s) = x {
                names.push(s.clone());
            }
        }
    }
    names.sort();
    names.dedup();
    names
}

pub fn check_doc(v: &RVal, acc: &mut Acc, ext: bool) {
    let b = enc(v);
    let ctxv = || json!({"doc": format!("{:?}", v), "hex": hex(&b)});
    if univ::width_nontrivial(v) {
        acc.nontrivial += 1;
    }
    macro_rules! g {
        ($name:expr, $e:expr) => {{
            acc.eval();
            match guard(|| $e) {
                Ok(x) => Some(x),
                Err(p) => {
                    acc.vio(&format!("{}:{}", $name, panic_class(&p)), ctxv);
                    None
                }
            }
        }};
    }
    // array_length / type_of / is_array / is_object
    if let Some(r) = g!("array_length", jsonb::array_length(&b)) {
        if r != ops::array_length(v) {
            acc.vio("array_length:wrong", || json!({"ctx": ctxv(), "observed": r}));
        }
    }
    if let Some(r) = g!("type_of", jsonb::type_of(&b)) {
        if r.as_ref().ok().copied() != Some(ops::type_of(v)) {
            acc.vio("type_of:wrong", || json!({"ctx": ctxv(), "observed": format!("{:?}", r)}));
        }
    }
    if let Some(r) = g!("is_array/is_object", (jsonb::is_array(&b), jsonb::is_object(&b))) {
        if r != (matches!(v, RVal::Arr(_)), matches!(v, RVal::Obj(_))) {
            acc.vio("is_array/is_object:wrong", || json!({"ctx": ctxv(), "observed": format!("{:?}", r)}));
        }
    }
    // get_by_index
    let len = ops::array_length(v).unwrap_or(0);
    for i in 0..=len + 1 {
        if let Some(r) = g!("get_by_index", jsonb::get_by_index(&b, i)) {
            sub_ok("get_by_index", &r, &ops::get_by_index(v, i), acc, &|| json!({"ctx": ctxv(), "index": i}));
        }
    }
    // get_by_name
    for name in names_for(v) {
        for ic in [false, true] {
            if let Some(r) = g!("get_by_name", jsonb::get_by_name(&b, &name, ic)) {
                sub_ok("get_by_name", &r, &ops::get_by_name(v, &name, ic), acc, &|| json!({"ctx": ctxv(), "name": name, "ignore_case": ic}));
            }
        }
    }
    // the same questions asked of the decoded tree (Value's own accessors)
    if let Some(Ok(tree)) = g!("from_slice", jsonb::from_slice(&b)) {
        if let Some(r) = g!("Value::array_length", tree.array_length()) {
            if r != ops::array_length(v) {
                acc.vio("Value::array_length:wrong", || json!({"ctx": ctxv(), "observed": r}));
            }
        }
        if let Some(r) = g!("LazyValue::array_length", (jsonb::LazyValue::from(tree.clone()).array_length(), jsonb::parse_lazy_value(&b).ok().and_then(|l| l.array_length()))) {
            if r != (ops::array_length(v), ops::array_length(v)) {
                acc.vio("LazyValue::array_length:wrong", || json!({"ctx": ctxv(), "observed": format!("{:?}", r)}));
            }
        }
        if let Some(r) = g!("Value::object_keys", tree.object_keys().map(|k| k.to_vec())) {
            sub_ok("Value::object_keys", &r, &ops::object_keys(v), acc, &ctxv);
        }
        for name in names_for(v) {
            if let Some(r) = g!("Value::get_by_name_ignore_case", tree.get_by_name_ignore_case(&name).map(|x| x.to_vec())) {
                sub_ok("Value::get_by_name_ignore_case", &r, &ops::get_by_name(v, &name, true), acc, &|| json!({"ctx": ctxv(), "name": name}));
            }
        }
        let kinds = (tree.is_null(), tree.is_boolean(), tree.is_number(), tree.is_string(), tree.is_array(), tree.is_object(), tree.is_scalar());
        let exp = (
            matches!(v, RVal::Null),
            matches!(v, RVal::Bool(_)),
            matches!(v, RVal::Num(_)),
            matches!(v, RVal::Str(_)),
            matches!(v, RVal::Arr(_)),
            matches!(v, RVal::Obj(_)),
            !matches!(v, RVal::Arr(_) | RVal::Obj(_)),
        );
        acc.eval();
        if kinds != exp {
            acc.vio("Value::is_*:wrong", || json!({"ctx": ctxv(), "observed": format!("{:?}", kinds)}));
        }
        acc.eval();
        let views = (tree.as_null().is_some(), tree.as_bool(), tree.as_str().map(|s| s.to_string()), tree.as_array().map(|a| a.len()), tree.as_object().map(|o| o.len()));
        let expv = (
            matches!(v, RVal::Null),
            if let RVal::Bool(x) = v { Some(*x) } else { None },
            if let RVal::Str(s) = v { Some(s.clone()) } else { None },
            if let RVal::Arr(a) = v { Some(a.len()) } else { None },
            if let RVal::Obj(o) = v { Some(o.len()) } else { None },
        );
        if views != expv {
            acc.vio("Value::as_*:wrong", || json!({"ctx": ctxv(), "observed": format!("{:?}", views)}));
        }
        if let RVal::Num(n) = v {
            acc.eval();
            let got = (tree.as_u64(), tree.as_i64(), tree.is_u64(), tree.is_i64(), tree.is_f64());
            if !(n.view_u64_admissible(got.0) && n.view_i64_admissible(got.1) && got.2 == got.0.is_some() && got.3 == got.1.is_some() && got.4) {
                acc.vio("Value::number-views:wrong", || json!({"ctx": ctxv(), "observed": format!("{:?}", got)}));
            }
        }
    }
    // get_by_keypath
    for path in keypaths(v, v.depth() + 1, ext) {
        let kp: Vec<KeyPath> = path.iter().map(to_keypath).collect();
        if let Some(r) = g!("get_by_keypath", jsonb::get_by_keypath(&b, kp.iter())) {
            sub_ok("get_by_keypath", &r, &ops::get_by_keypath(v, &path), acc, &|| json!({"ctx": ctxv(), "path": format!("{:?}", path)}));
        }
    }
    // object_keys / object_each / array_values
    if let Some(r) = g!("object_keys", jsonb::object_keys(&b)) {
        sub_ok("object_keys", &r, &ops::object_keys(v), acc, &ctxv);
    }
    if let Some(r) = g!("object_each", jsonb::object_each(&b)) {
        match (&r, ops::object_each(v)) {
            (None, None) => {}
            (Some(g), Some(e)) => {
                let ok = g.len() == e.len() && g.iter().zip(&e).all(|((gk, gv), (ek, ev))| gk == ek.as_bytes() && *gv == enc(ev));
                if !ok {
                    acc.vio("object_each:wrong", || json!({"ctx": ctxv(), "observed": format!("{:?}", g.iter().map(|(k, x)| (String::from_utf8_lossy(k).to_string(), hex(x))).collect::<Vec<_>>())}));
                }
            }
            _ => acc.vio("object_each:some/none-wrong", ctxv),
        }
    }
    if let Some(r) = g!("array_values", jsonb::array_values(&b)) {
        match (&r, ops::array_values(v)) {
            (None, None) => {}
            (Some(g), Some(e)) => {
                if g.len() != e.len() || g.iter().zip(&e).any(|(x, y)| *x != enc(y)) {
                    acc.vio("array_values:wrong", || json!({"ctx": ctxv(), "observed": format!("{:?}", g.iter().map(|x| hex(x)).collect::<Vec<_>>())}));
                }
            }
            _ => acc.vio("array_values:some/none-wrong", ctxv),
        }
    }
    // exists_all_keys / exists_any_keys: every LIST of <= 3 candidate keys (any order, with repetitions)
    let mut cands: Vec<Vec<u8>> = names_for(v).into_iter().take(6).map(|s| s.into_bytes()).collect();
    cands.push(vec![0xFF, 0x61]);
    let nc = cands.len();
    let nlists: usize = 1 + nc + nc * nc + nc * nc * nc;
    for li in 0..nlists {
        let (len, mut j) = if li < 1 { (0, 0) } else if li < 1 + nc { (1, li - 1) } else if li < 1 + nc + nc * nc { (2, li - 1 - nc) } else { (3, li - 1 - nc - nc * nc) };
        let mut ks: Vec<Vec<u8>> = vec![];
        for _ in 0..len {
            ks.push(cands[j % nc].clone());
            j /= nc;
        }
        if let Some(r) = g!("exists_keys", (jsonb::exists_all_keys(&b, ks.iter().map(|k| &k[..])), jsonb::exists_any_keys(&b, ks.iter().map(|k| &k[..])))) {
            let e = (ops::exists_all_keys(v, &ks), ops::exists_any_keys(v, &ks));
            if r != e {
                acc.vio("exists_all/any_keys:wrong", || json!({"ctx": ctxv(), "keys": ks.iter().map(|k| String::from_utf8_lossy(k).to_string()).collect::<Vec<_>>(), "expected": format!("{:?}", e), "observed": format!("{:?}", r)}));
            }
        }
    }
    // traverse_check_string
    let mut strs = vec![];
    v.all_strings(&mut strs);
    {
        let visited = std::cell::RefCell::new(Vec::<Vec<u8>>::new());
        if let Some(r) = g!("traverse_check_string", jsonb::traverse_check_string(&b, |s| {
            visited.borrow_mut().push(s.to_vec());
            false
        })) {
            let mut got = visited.into_inner();
            got.sort();
            let mut exp: Vec<Vec<u8>> = strs.iter().map(|s| s.as_bytes().to_vec()).collect();
            exp.sort();
            if r || got != exp {
                acc.vio("traverse_check_string:visited-set-wrong", || json!({"ctx": ctxv(), "visited": got.iter().map(|x| String::from_utf8_lossy(x).to_string()).collect::<Vec<_>>()}));
            }
        }
    }
    let mut probes = strs.clone();
    probes.push("\u{1}absent".into());
    probes.sort();
    probes.dedup();
    for s in probes {
        if let Some(r) = g!("traverse_check_string", jsonb::traverse_check_string(&b, |x| x == s.as_bytes())) {
            if r != strs.contains(&s) {
                acc.vio("traverse_check_string:wrong", || json!({"ctx": ctxv(), "probe": s, "observed": r}));
            }
        }
    }
    casts(v, &b, acc);
    acc.sample(|| ctxv());
}

fn casts(v: &RVal, b: &[u8], acc: &mut Acc) {
    let ctxv = || json!({"doc": format!("{:?}", v), "hex": hex(b)});
    acc.eval();
    let r = guard(|| {
        (
            (jsonb::is_null(b), jsonb::as_null(b), jsonb::is_boolean(b), jsonb::as_bool(b), jsonb::to_bool(b).ok()),
            (jsonb::is_number(b), jsonb::as_number(b), jsonb::is_i64(b), jsonb::as_i64(b), jsonb::to_i64(b).ok()),
            (jsonb::is_u64(b), jsonb::as_u64(b), jsonb::to_u64(b).ok(), jsonb::is_f64(b), jsonb::as_f64(b), jsonb::to_f64(b).ok()),
            (jsonb::is_string(b), jsonb::as_str(b).map(|s| s.to_string()), jsonb::to_str(b).ok()),
        )
    });
    let r = match r {
        Ok(r) => r,
        Err(p) => {
            acc.vio(&format!("casts:{}", panic_class(&p)), ctxv);
            return;
        }
    };
    let ((is_null, as_null, is_bool, as_bool, to_bool), (is_num, as_num, is_i, as_i, to_i), (is_u, as_u, to_u, is_f, as_f, to_f), (is_s, as_s, to_s)) = r;
    let num = match v {
        RVal::Num(n) => Some(*n),
        _ => None,
    };
    let s = match v {
        RVal::Str(s) => Some(s.clone()),
        _ => None,
    };
    let bo = match v {
        RVal::Bool(x) => Some(*x),
        _ => None,
    };
    let mut bad: Vec<&str> = vec![];
    if is_null != matches!(v, RVal::Null) || as_null.is_some() != is_null {
        bad.push("null");
    }
    if as_bool != bo || is_bool != bo.is_some() {
        bad.push("bool");
    }
    let e_to_bool = bo.or_else(|| s.as_ref().and_then(|s| match s.to_lowercase().as_str() {
        "true" => Some(true),
        "false" => Some(false),
        _ => None,
    }));
    if to_bool != e_to_bool {
        bad.push("to_bool");
    }
    if as_num.as_ref().map(from_num_raw) != num || is_num != num.is_some() {
        bad.push("number");
    }
    // integers: exact when they fit, absent otherwise; floats: absent or the exact integer (C18's
    // "exact or absent"), the same answer as the decoded tree gives
    let tree_views = guard(|| jsonb::from_slice(b).ok().map(|t| (t.as_i64(), t.as_u64()))).ok().flatten();
    let i_ok = match num { Some(n) => n.view_i64_admissible(as_i), None => as_i.is_none() };
    if !i_ok || is_i != as_i.is_some() || tree_views.map(|t| t.0 != as_i).unwrap_or(true) {
        bad.push("i64");
    }
    let ei = as_i;
    let e_to_i = ei.or(bo.map(|x| x as i64)).or_else(|| s.as_ref().and_then(|s| s.parse::<i64>().ok()));
    if to_i != e_to_i {
        bad.push("to_i64");
    }
    let u_ok = match num { Some(n) => n.view_u64_admissible(as_u), None => as_u.is_none() };
    if !u_ok || is_u != as_u.is_some() || tree_views.map(|t| t.1 != as_u).unwrap_or(true) {
        bad.push("u64");
    }
    let eu = as_u;
    let e_to_u = eu.or(bo.map(|x| x as u64)).or_else(|| s.as_ref().and_then(|s| s.parse::<u64>().ok()));
    if to_u != e_to_u {
        bad.push("to_u64");
    }
    let f_ok = |got: Option<f64>| match (num, got) {
        (None, None) => true,
        (Some(n), Some(f)) => match n.as_int() {
            Some(i) => is_nearest_double(i, f),
            None => RNum::f(f) == n,
        },
        _ => false,
    };
    if !f_ok(as_f) || is_f != num.is_some() {
        bad.push("f64");
    }
    if num.is_some() {
        if !f_ok(to_f) {
            bad.push("to_f64");
        }
    } else {
        let e = bo.map(|x| if x { 1.0 } else { 0.0 }).or_else(|| s.as_ref().and_then(|s| s.parse::<f64>().ok()));
        if to_f.map(|x| x.to_bits()) != e.map(|x| x.to_bits()) && !(to_f.map_or(false, |x| x.is_nan()) && e.map_or(false, |x| x.is_nan())) {
            bad.push("to_f64");
        }
    }
    if as_s != s || is_s != s.is_some() {
        bad.push("str");
    }
    let to_s_ok = match (v, &to_s) {
        (RVal::Str(x), Some(y)) => x == y,
        (RVal::Bool(x), Some(y)) => y == if *x { "true" } else { "false" },
        (RVal::Num(n), Some(y)) => match n.as_int() {
            Some(i) => *y == i.to_string(),
            None => {
                let f = n.as_float().unwrap();
                if f.is_nan() {
                    y.parse::<f64>().map_or(false, |x| x.is_nan())
                } else {
                    y.parse::<f64>().map_or(false, |x| x.to_bits() == f.to_bits())
                }
            }
        },
        (RVal::Null | RVal::Arr(_) | RVal::Obj(_), None) => true,
        _ => false,
    };
    if !to_s_ok {
        bad.push("to_str");
    }
    // ... and, for a number, exactly the text the decoded tree's number displays as
    if let (RVal::Num(_), Some(y)) = (v, &to_s) {
        let tree_text = guard(|| jsonb::from_slice(b).ok().and_then(|t| t.as_number().map(|n| format!("{}", n)))).ok().flatten();
        if tree_text.as_deref() != Some(y.as_str()) {
            bad.push("to_str-differs-from-the-decoded-number's-text");
        }
    }
    if !bad.is_empty() {
        acc.vio(&format!("casts:wrong:{}", bad.join("+")), || json!({"ctx": ctxv(), "to_bool": to_bool, "to_i64": to_i, "to_u64": to_u, "to_f64": to_f, "to_str": to_s, "as_str": as_s}));
    }
}

pub fn case_objects() -> Vec<RVal> {
    let keys = ["a", "A", "ab", "aB", "Ab", "AB", "b"];
    let mut out = vec![];
    for mask in 1u32..(1 << keys.len()) {
        if mask.count_ones() > 3 {
            continue;
        }
        let mut m = std::collections::BTreeMap::new();
        let mut n = 0u64;
        for (i, k) in keys.iter().enumerate() {
            if mask & (1 << i) != 0 {
                n += 1;
                m.insert(k.to_string(), if n == 2 { RVal::s("two") } else { RVal::u(n * 300) });
            }
        }
        out.push(RVal::Obj(m));
    }
    // every subset of <= 3 of the Unicode case keys
    let uk = UNICODE_CASE_KEYS;
    for mask in 1u32..(1 << uk.len()) {
        if mask.count_ones() > 3 {
            continue;
        }
        let mut m = std::collections::BTreeMap::new();
        let mut n = 0u64;
        for (i, k) in uk.iter().enumerate() {
            if mask & (1 << i) != 0 {
                n += 1;
                m.insert(k.to_string(), if n == 2 { RVal::s("two") } else { RVal::u(n * 300) });
            }
        }
        out.push(RVal::Obj(m));
    }
    out
}

pub fn spaces(tier: Tier) -> Vec<Space<'static>> {
    let mut sp: Vec<Space> = vec![];
    let d2 = univ::d2();
    sp.push(Space::new("d2", d2.len() as u64, move |i, acc| check_doc(&d2[i as usize], acc, true)));
    let d1q = univ::d1q();
    sp.push(Space::new("d1q", d1q.len() as u64, move |i, acc| check_doc(&d1q[i as usize], acc, true)));
    let ko = refmodel::gen::keyorder_docs();
    sp.push(Space::new("key-order objects (byte order != length order != case order)", ko.len() as u64, move |i, acc| check_doc(&ko[i as usize], acc, false)));
    let sk = refmodel::gen::strkey_docs();
    sp.push(Space::new("special-character keys (every key and pair of keys from SSTR)", sk.len() as u64, move |i, acc| check_doc(&sk[i as usize], acc, false)));
    // key paths as the key-path parser delivers them: every token string it accepts, on a document set
    {
        let toks = crate::checks::c16::TOKENS;
        let nt = toks.len() as u64;
        let l: u32 = if tier.thorough() { 6 } else { 5 };
        let total: u64 = (0..=l).map(|k| nt.pow(k)).sum();
        let docs: std::sync::Arc<Vec<(RVal, Vec<u8>)>> = std::sync::Arc::new(
            [
                RVal::obj(vec![("a", RVal::arr(vec![RVal::u(1), RVal::obj(vec![("1", RVal::u(2)), ("a", RVal::s("x"))])])), ("1", RVal::s("one")), ("-1", RVal::Null), ("é", RVal::arr(vec![RVal::s("e")])), ("u", RVal::f(1.5)), ("", RVal::Bool(true)), ("a1", RVal::u(300))]),
                RVal::arr(vec![RVal::arr(vec![RVal::u(0), RVal::u(1)]), RVal::obj(vec![("a", RVal::obj(vec![("a", RVal::u(1))]))]), RVal::s("a")]),
                RVal::arr(vec![RVal::u(7)]),
                RVal::obj(vec![("1", RVal::arr(vec![RVal::Null, RVal::obj(vec![("-1", RVal::s("deep"))])]))]),
                RVal::s("a"),
                RVal::arr(vec![]),
            ]
            .into_iter()
            .map(|x| { let b = enc(&x); (x, b) })
            .collect(),
        );
        sp.push(Space::new("token-soup key paths: every token string the key-path parser accepts, applied as parsed x 6 documents", total.div_ceil(256), move |blk, acc| {
            for idx in (blk * 256)..((blk + 1) * 256).min(total) {
                let mut i = idx;
                let mut len = 0;
                let mut c = 1;
                while i >= c {
                    i -= c;
                    c *= nt;
                    len += 1;
                }
                let mut text: Vec<u8> = vec![];
                for _ in 0..len {
                    text.extend_from_slice(toks[(i % nt) as usize]);
                    i /= nt;
                }
                let Ok(Ok(kp)) = guard(|| jsonb::keypath::parse_key_paths(&text)) else { continue };
                let model: Vec<KP> = kp.paths.iter().map(crate::checks::c16::from_impl).collect();
                if model.iter().any(|k| matches!(k, KP::Name(s) | KP::QuotedName(s) if s.starts_with("ILL-FORMED-UTF8["))) {
                    continue;
                }
                acc.nontrivial += 1;
                for (v, b) in docs.iter() {
                    acc.eval();
                    match guard(|| jsonb::get_by_keypath(b, kp.paths.iter())) {
                        Ok(r) => sub_ok("get_by_keypath(parsed)", &r, &ops::get_by_keypath(v, &model), acc, &|| json!({"keypath_text": String::from_utf8_lossy(&text), "parsed": format!("{:?}", model), "doc": format!("{:?}", v)})),
                        Err(p) => acc.vio(&format!("get_by_keypath(parsed):{}", panic_class(&p)), || json!({"keypath_text": String::from_utf8_lossy(&text), "doc": format!("{:?}", v)})),
                    }
                }
            }
        }));
    }
    {
        let tv = refmodel::gen::tagv_docs();
        sp.push(Space::new("tag-like payloads and keyword keys", tv.len() as u64, move |i, acc| check_doc(&tv[i as usize], acc, false)));
    }
    let co = case_objects();
    sp.push(Space::new("case-variant-objects", co.len() as u64, move |i, acc| check_doc(&co[i as usize], acc, false)));
    // casts on every scalar of SW + B64 + SSTR
    let mut scal: Vec<RVal> = refmodel::gen::sw();
    scal.extend(univ::b64_all().iter().map(|n| RVal::Num(*n)));
    scal.extend(univ::sstr().iter().map(|s| RVal::Str(s.clone())));
    for s in ["true", "True", "FALSE", "false", "0", "+1", "-0", "18446744073709551615", "18446744073709551616", "-9223372036854775808", "1e3", "inf", "NaN", " 1", "1 ", "0x10", "tRuE"] {
        scal.push(RVal::s(s));
    }
    sp.push(Space::new("casts-scalars", scal.len() as u64, move |i, acc| {
        let v = &scal[i as usize];
        acc.nontrivial += 1;
        casts(v, &enc(v), acc)
    }));
    {
        let u = refmodel::gen::d3e_uni();
        let n = u.count(3);
        sp.push(Space::new("d3e (depth 3 over {\"\", 1}: empty strings nested at every level)", n, move |i, acc| {
            let v = u.nth(3, i);
            check_doc(&v, acc, false)
        }));
    }
    sp.push(Space::new("wide (4-6 siblings over 5 kinds)", refmodel::gen::wide_count(), |i, acc| crate::checks::scale::wide_deep_doc(&refmodel::gen::wide_nth(i), acc, 2)));
    sp.push(Space::new("deep (4-6 levels, 5 sibling patterns per level)", refmodel::gen::deep_count(), |i, acc| crate::checks::scale::wide_deep_doc(&refmodel::gen::deep_nth(i), acc, 2)));
    {
        let sz = std::sync::Arc::new(crate::checks::scale::sizes(tier));
        let n = sz.len() as u64 * crate::checks::scale::N_FAMILIES;
        sp.push(Space::new("size sweep: every N up to the limit x 5 families", n, move |i, acc| {
            let d = crate::checks::scale::sized_doc((i % crate::checks::scale::N_FAMILIES) as u8, sz[(i / crate::checks::scale::N_FAMILIES) as usize]);
            crate::checks::scale::accessors(&d, acc)
        }));
        sp.push(Space::new("depth sweep: every depth 1..=300 x 3 shapes", 300, |i, acc| crate::checks::scale::depth_ops(i as usize + 1, acc, 2)));
    }
    let sd = crate::checks::scale::docs().clone();
    sp.push(Space::new("scale (counts/lengths/offsets across 2^8, 2^16, 2^20)", sd.len() as u64, move |i, acc| crate::checks::scale::accessors(&sd[i as usize], acc)));
    if tier.thorough() {
        let d2k = univ::d2k();
        sp.push(Space::new("d2k", d2k.count(2), move |i, acc| check_doc(&d2k.nth(2, i), acc, false)));
        let d1 = univ::d1();
        sp.push(Space::new("d1", d1.len() as u64, move |i, acc| check_doc(&d1[i as usize], acc, false)));
        let d3 = univ::d3();
        sp.push(Space::new("d3", d3.count(3), move |i, acc| check_doc(&d3.nth(3, i), acc, false)));
    }
    sp
}

pub fn meta(tier: Tier) -> (String, serde_json::Value, Vec<String>) {
    (
        "every document of the universes x every argument derived from it: indices 0..len+1; names = keys, case variants, prefixes, extensions, absent x ignore_case; every key path of length <= depth+1 over real indices (-len-2..len+1 and the i32 extremes), every key as Name and QuotedName, absent and wrong-kind steps; every list of <=3 candidate keys (any order, with repetitions) incl. a non-UTF-8 key; all casts; keys/each/values/type; string traversal with a recording predicate and an equality predicate per string. Every returned sub-value must equal the model encoder's bytes for the model sub-tree and pass the strict validator. Non-trivial = container with a nested container or >=2 children of different payload widths.".into(),
        json!({"universes": if tier.thorough() {"D2,D1q,case-variant objects,cast scalars,D2k,D1,D3"} else {"D2,D1q,case-variant objects,cast scalars"}}),
        vec!["string->number casts use Rust's std parse on both sides (the tree answer)".into()],
    )
}
