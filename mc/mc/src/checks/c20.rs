//! C20 — deep nesting and extreme arguments end in a result or an error, never a crash.
use crate::checks::c05::to_keypath;
use crate::harness::*;
use crate::isolate::{self, CaseOutcome};
use crate::pathconv::to_impl_path;
use jsonb::jsonpath::{Mode, Selector};
use refmodel::jpath::*;
use refmodel::layout::{enc, hex};
use refmodel::ops::KP;
use refmodel::RVal;
use serde_json::json;
use std::time::Duration;

pub const OPS: [&str; 18] = [
    "select_full_depth_path", "array_set_functions_on_equal_deep_elements",
    "parse_value", "to_vec", "parse_jsonb", "from_slice", "to_string", "to_pretty_string", "compare_eq", "compare_ne", "get_by_path", "convert_to_comparable", "strip_nulls", "to_serde_json",
    "traverse_check_string", "contains", "delete_by_keypath", "type_and_accessors",
];
pub const SHAPES: [&str; 3] = ["array", "object", "alternating"];

/// deep JSON text, built iteratively
pub fn deep_text(shape: usize, n: usize, bottom: &str) -> Vec<u8> {
    let mut s = Vec::with_capacity(n * 7 + 8);
    for lvl in 0..n {
        let arr = match shape { 0 => true, 1 => false, _ => lvl % 2 == 0 };
        if arr { s.push(b'['); } else { s.extend_from_slice(b"{\"a\":"); }
    }
    s.extend_from_slice(bottom.as_bytes());
    for lvl in (0..n).rev() {
        let arr = match shape { 0 => true, 1 => false, _ => lvl % 2 == 0 };
        s.push(if arr { b']' } else { b'}' });
    }
    s
}

/// deep JSONB, built iteratively inside-out (bytes pushed in reverse, then reversed)
pub fn deep_jsonb(shape: usize, n: usize, bottom: u8) -> Vec<u8> {
    // bottom scalar: number `bottom` (unsigned, 2-byte payload) or null when 0
    let (mut entry, mut rev): (u32, Vec<u8>) = if bottom == 0 { (0x0000_0000, vec![]) } else { (0x2000_0002, vec![bottom, 0x50]) };
    if n == 0 {
        let mut out = 0x2000_0000u32.to_be_bytes().to_vec();
        out.extend_from_slice(&entry.to_be_bytes());
        rev.reverse();
        out.extend_from_slice(&rev);
        return out;
    }
    for lvl in (0..n).rev() {
        let arr = match shape { 0 => true, 1 => false, _ => lvl % 2 == 0 };
        if arr {
            rev.extend(entry.to_be_bytes().iter().rev());
            rev.extend(0x8000_0001u32.to_be_bytes().iter().rev());
        } else {
            rev.push(b'a');
            rev.extend(entry.to_be_bytes().iter().rev());
            rev.extend(0x1000_0001u32.to_be_bytes().iter().rev());
            rev.extend(0x4000_0001u32.to_be_bytes().iter().rev());
        }
        entry = 0x5000_0000 | (rev.len() as u32 & 0x0FFF_FFFF);
    }
    rev.reverse();
    rev
}

pub fn deep_value(shape: usize, n: usize) -> jsonb::Value<'static> {
    let mut v = jsonb::Value::Number(jsonb::Number::UInt64(1));
    for lvl in (0..n).rev() {
        let arr = match shape { 0 => true, 1 => false, _ => lvl % 2 == 0 };
        v = if arr {
            jsonb::Value::Array(vec![v])
        } else {
            let mut m = std::collections::BTreeMap::new();
            m.insert("a".to_string(), v);
            jsonb::Value::Object(m)
        };
    }
    v
}

fn run_op(op: &str, shape: usize, n: usize) -> String {
    let r = guard(|| -> &'static str {
        match op {
            "parse_value" => {
                let t = deep_text(shape, n, "1");
                match jsonb::parse_value(&t) { Ok(v) => { std::mem::forget(v); "ok" } Err(_) => "err" }
            }
            "to_vec" => {
                let v = deep_value(shape, n);
                let b = v.to_vec();
                std::mem::forget(v);
                if b.len() > 8 { "ok" } else { "err" }
            }
            "parse_jsonb" => match jsonb::parse_jsonb(&deep_jsonb(shape, n, 1)) { Ok(v) => { std::mem::forget(v); "ok" } Err(_) => "err" },
            "from_slice" => match jsonb::from_slice(&deep_jsonb(shape, n, 1)) { Ok(v) => { std::mem::forget(v); "ok" } Err(_) => "err" },
            "to_string" => { let s = jsonb::to_string(&deep_jsonb(shape, n, 1)); if s.len() >= 2 * n { "ok" } else { "err" } }
            "to_pretty_string" => { let s = jsonb::to_pretty_string(&deep_jsonb(shape, n, 1)); if s.len() >= 2 * n { "ok" } else { "err" } }
            "compare_eq" => { let a = deep_jsonb(shape, n, 1); match jsonb::compare(&a, &a.clone()) { Ok(_) => "ok", Err(_) => "err" } }
            "compare_ne" => {
                // a different bottom, one level deeper, one level shallower with an empty bottom: nested
                // containers of equal and of different size at every level
                let a = deep_jsonb(shape, n, 1);
                let b = deep_jsonb(shape, n, 2);
                let c = deep_jsonb(shape, n + 1, 1);
                let d = deep_jsonb(shape, n.saturating_sub(1), 0);
                // nested arrays of different length at the same position: [[a, a]] against [[a]]
                let wrap = |items: &[&[u8]]| { let mut o = vec![]; jsonb::build_array(items.iter().copied(), &mut o).map(|_| o) };
                let nested = (|| { let x2 = wrap(&[&a, &a])?; let p = wrap(&[&x2])?; let x1 = wrap(&[&a])?; let q = wrap(&[&x1])?; Ok::<_, jsonb::Error>((p, q)) })();
                let mut extra = match nested { Ok((p, q)) => jsonb::compare(&p, &q).is_ok() && jsonb::compare(&q, &p).is_ok(), Err(_) => false };
                // small depths: chains whose innermost arrays have different lengths ([..[1,2,3]..] against [..[1]..])
                if n <= 48 {
                    let nums: Vec<[u8; 10]> = (1..=4u8).map(|v| [0x20u8, 0, 0, 0, 0x20, 0, 0, 2, 0x50, v]).collect();
                    let chain = |k: usize| -> Result<Vec<u8>, jsonb::Error> {
                        let items: Vec<&[u8]> = (0..k).map(|j| &nums[j % 4][..]).collect();
                        let mut cur = wrap(&items)?;
                        for _ in 1..n {
                            cur = wrap(&[&cur])?;
                        }
                        Ok(cur)
                    };
                    match (chain(3), chain(1), chain(0), chain(2), chain(4)) {
                        (Ok(x), Ok(y), Ok(z), Ok(w), Ok(v)) => {
                            let all = [&x, &y, &z, &w, &v];
                            for a in all {
                                for b in all {
                                    extra = extra && jsonb::compare(a, b).is_ok();
                                }
                            }
                        }
                        _ => extra = false,
                    }
                }
                match (jsonb::compare(&a, &b), jsonb::compare(&a, &c), jsonb::compare(&c, &a), jsonb::compare(&a, &d)) { (Ok(_), Ok(_), Ok(_), Ok(_)) if extra => "ok", _ => "err" }
            }
            "get_by_path" => {
                let a = deep_jsonb(shape, n, 1);
                let mut res = "ok";
                for p in ["$[*][*]", "$.a.a", "$[0][0][*]", "$.*.*?(exists(@.a))", "$[*]?(@ == 1)", "$.*?(@ == 1)", "$[0] == 1", "$.a == 1", "$[*]?(@[0] == 1 || @.a > 0)", "$.a?(@.a != $.a)"] {
                    let jp = jsonb::jsonpath::parse_json_path(p.as_bytes()).unwrap();
                    let (mut d, mut o) = (vec![], vec![]);
                    if jsonb::get_by_path(&a, jp, &mut d, &mut o).is_err() { res = "err"; }
                }
                res
            }
            "convert_to_comparable" => { let mut k = vec![]; jsonb::convert_to_comparable(&deep_jsonb(shape, n, 1), &mut k); "ok" }
            "array_set_functions_on_equal_deep_elements" => {
                // [X, X] with X nested n levels: the set functions compare the two elements
                let x = deep_jsonb(shape, n, 1);
                let mut doc = vec![];
                if jsonb::build_array([&x[..], &x[..]], &mut doc).is_err() {
                    "err"
                } else {
                    let (mut a, mut b, mut c) = (vec![], vec![], vec![]);
                    let r = (jsonb::array_distinct(&doc, &mut a).is_ok(), jsonb::array_intersection(&doc, &doc, &mut b).is_ok(), jsonb::array_except(&doc, &x, &mut c).is_ok(), jsonb::array_overlap(&doc, &x).is_ok());
                    if r == (true, true, true, true) { "ok" } else { "err" }
                }
            }
            "strip_nulls" => { let mut k = vec![]; match jsonb::strip_nulls(&deep_jsonb(shape, n, 0), &mut k) { Ok(_) => "ok", Err(_) => "err" } }
            "to_serde_json" => match jsonb::to_serde_json(&deep_jsonb(shape, n, 1)) { Ok(v) => { std::mem::forget(v); "ok" } Err(_) => "err" },
            "traverse_check_string" => { if jsonb::traverse_check_string(&deep_jsonb(shape, n, 1), |s| s == b"zz") { "err" } else { "ok" } }
            "contains" => { let a = deep_jsonb(shape, n, 1); if jsonb::contains(&a, &a.clone()) { "ok" } else { "err" } }
            "delete_by_keypath" => {
                let a = deep_jsonb(shape, n, 1);
                let kp: Vec<_> = (0..n.min(4000)).map(|lvl| { let arr = match shape { 0 => true, 1 => false, _ => lvl % 2 == 0 }; to_keypath(&if arr { KP::Index(0) } else { KP::Name("a".into()) }) }).collect();
                let mut out = vec![];
                match jsonb::delete_by_keypath(&a, kp.iter(), &mut out) { Ok(_) => "ok", Err(_) => "err" }
            }
            "select_full_depth_path" => {
                // one path step per nesting level (built as an AST; the text parser is not involved)
                let a = deep_jsonb(shape, n, 1);
                let mut steps = vec![Step::Root];
                for lvl in 0..n.min(20_000) {
                    let arr = match shape { 0 => true, 1 => false, _ => lvl % 2 == 0 };
                    steps.push(if arr { Step::Indices(vec![AIdx::One(Idx::N(0))]) } else { Step::Dot("a".into()) });
                }
                let ip = to_impl_path(&JPath(steps));
                let (mut d, mut o) = (vec![], vec![]);
                let r1 = Selector::new(ip.clone(), Mode::All).select(&a, &mut d, &mut o);
                let r2 = Selector::new(ip, Mode::Mixed).exists(&a);
                if r1.is_ok() && r2.is_ok() { "ok" } else { "err" }
            }
            "type_and_accessors" => {
                let a = deep_jsonb(shape, n, 1);
                let _ = (jsonb::type_of(&a), jsonb::array_length(&a), jsonb::get_by_index(&a, 0), jsonb::get_by_name(&a, "a", true), jsonb::object_keys(&a), jsonb::array_values(&a), jsonb::object_each(&a));
                let mut out = vec![];
                let _ = jsonb::concat(&a, &a, &mut out);
                "ok"
            }
            _ => "unknown-op",
        }
    });
    match r {
        Ok(s) => s.to_string(),
        Err(p) => format!("panic {} {}", p.site, p.msg.chars().take(60).collect::<String>()),
    }
}

/// worker: "<op> <shape> <stack_kib> <n>"
pub fn worker(case: &str) -> String {
    let f: Vec<&str> = case.split_whitespace().collect();
    let (op, shape, stack, n) = (f[0].to_string(), f[1].parse::<usize>().unwrap(), f[2].parse::<usize>().unwrap(), f[3].parse::<usize>().unwrap());
    let h = std::thread::Builder::new().stack_size(stack * 1024).spawn(move || run_op(&op, shape, n)).unwrap();
    h.join().unwrap_or_else(|_| "thread-panic".into())
}

fn grid(above: usize) -> Vec<usize> {
    let mut g = vec![];
    for k in 0..=18u32 {
        for d in [-1i64, 0, 1] {
            let v = (1i64 << k) + d;
            if v > above as i64 {
                g.push(v as usize);
            }
        }
    }
    g.extend([100_000, 200_000, 300_000]);
    g.sort();
    g.dedup();
    g.into_iter().filter(|x| *x > above).collect()
}

fn depth_sweep(op: &str, shape: usize, stack_kib: usize, bound: usize, with_grid: bool, acc: &mut Acc) {
    // every depth 1..=bound ascending in one worker until the first abort, then the grid
    let mut depths: Vec<usize> = (1..=bound).collect();
    if with_grid {
        let max = if op == "to_pretty_string" { 4096 } else { usize::MAX };
        depths.extend(grid(bound).into_iter().filter(|d| *d <= max));
    }
    let cases: Vec<String> = depths.iter().map(|n| format!("{} {} {} {}", op, shape, stack_kib, n)).collect();
    let res = isolate::run_cases("c20", &cases, Duration::from_secs(120), true);
    let mut completed = 0u64;
    for (n, r) in depths.iter().zip(res) {
        match r {
            None => break,
            Some(CaseOutcome::Done(s)) => {
                completed += 1;
                acc.eval();
                if s.starts_with("panic") {
                    acc.outcome("panic");
                    let what = s.splitn(3, ' ').nth(2).unwrap_or("").to_string();
                    let kind = if what.contains("overflow") { "arithmetic-overflow" } else { "panic" };
                    acc.vio(&format!("depth:{}:{}", op, kind), || json!({"op": op, "shape": SHAPES[shape], "stack_kib": stack_kib, "smallest_failing_depth": n, "panic": s}));
                    break;
                } else {
                    acc.outcome(if s == "ok" { "completed" } else { "error-returned" });
                }
            }
            Some(CaseOutcome::Died { signal, code, stderr_tail }) => {
                acc.eval();
                acc.outcome("process-died");
                let kind = if stderr_tail.contains("overflowed its stack") || signal == Some(11) || signal == Some(6) && stderr_tail.contains("stack") { "stack-overflow" } else if stderr_tail.contains("memory allocation") { "allocation-failure" } else { "abort" };
                // an abort inside the exhaustively swept range is a different (much worse) event than
                // the recorded deep-recursion findings, and is never matched by them
                // (fixed threshold, independent of the tier: 1,024 levels = 2 KiB of stack per level on the small stack)
                let _ = bound;
                let class = if *n <= 1024 { format!("depth:{}:{}:at-or-below-1024-levels", op, kind) } else { format!("depth:{}:{}", op, kind) };
                acc.vio(&class, || json!({"op": op, "shape": SHAPES[shape], "stack_kib": stack_kib, "smallest_failing_depth": n, "signal": signal, "code": code, "stderr": stderr_tail}));
                break;
            }
            Some(CaseOutcome::TimedOut) => {
                acc.note(&format!("time cap hit: {} {} depth {}", op, SHAPES[shape], n), 1);
                break;
            }
        }
    }
    acc.nontrivial += completed;
    acc.note(&format!("depths completed {} {} stack={}KiB", op, SHAPES[shape], stack_kib), completed);
}

fn extreme_docs() -> Vec<RVal> {
    let mut v: Vec<RVal> = crate::univ::d2().iter().step_by(47).cloned().collect();
    v.push(RVal::arr(vec![]));
    v.push(RVal::arr(vec![RVal::u(1)]));
    v.push(RVal::arr((0..5).map(RVal::u).collect()));
    v.push(RVal::arr(vec![RVal::arr(vec![RVal::u(1), RVal::u(2)]), RVal::obj(vec![("a", RVal::arr(vec![RVal::Null]))])]));
    v
}

fn idx_paths(n: i32) -> Vec<JPath> {
    vec![
        JPath(vec![Step::Root, Step::Indices(vec![AIdx::One(Idx::N(n))])]),
        JPath(vec![Step::Root, Step::Indices(vec![AIdx::One(Idx::Last(n))])]),
        JPath(vec![Step::Root, Step::Indices(vec![AIdx::Slice(Idx::N(n), Idx::Last(0))])]),
        JPath(vec![Step::Root, Step::Indices(vec![AIdx::Slice(Idx::N(0), Idx::Last(n))])]),
        JPath(vec![Step::Root, Step::Indices(vec![AIdx::Slice(Idx::Last(n), Idx::N(n))])]),
    ]
}

/// one extreme-argument probe; returns panic class if any
fn extreme_one(doc: &[u8], n: i32, acc: &mut Acc, ctx: &dyn Fn() -> serde_json::Value) {
    let kp = [to_keypath(&KP::Index(n))];
    let kp2 = [to_keypath(&KP::Index(0)), to_keypath(&KP::Index(n))];
    let one = enc(&RVal::u(1));
    let checks: [(&str, Box<dyn Fn() + '_>); 7] = [
        ("delete_by_index", Box::new(|| { let mut b = vec![]; let _ = jsonb::delete_by_index(doc, n, &mut b); })),
        ("array_insert", Box::new(|| { let mut b = vec![]; let _ = jsonb::array_insert(doc, n, &one, &mut b); })),
        ("get_by_keypath", Box::new(|| { let _ = jsonb::get_by_keypath(doc, kp.iter()); let _ = jsonb::get_by_keypath(doc, kp2.iter()); })),
        ("delete_by_keypath", Box::new(|| { let mut b = vec![]; let _ = jsonb::delete_by_keypath(doc, kp.iter(), &mut b); let mut b2 = vec![]; let _ = jsonb::delete_by_keypath(doc, kp2.iter(), &mut b2); })),
        ("get_by_index", Box::new(|| { let _ = jsonb::get_by_index(doc, n as u32 as usize); let _ = jsonb::get_by_index(doc, n as i64 as usize); })),
        ("display-of-extreme-index", Box::new(|| {
            for p in idx_paths(n) {
                let ip = to_impl_path(&p);
                let _ = format!("{}", ip);
                let _ = format!("{:?}", ip);
            }
            let k = jsonb::keypath::KeyPaths { paths: vec![jsonb::keypath::KeyPath::Index(n)] };
            let _ = format!("{}", k);
        })),
        ("jsonpath-index", Box::new(|| {
            for p in idx_paths(n) {
                let ip = to_impl_path(&p);
                let (mut d, mut o) = (vec![], vec![]);
                let _ = Selector::new(ip, Mode::All).select(doc, &mut d, &mut o);
            }
        })),
    ];
    for (name, f) in checks.iter() {
        acc.eval();
        if let Err(p) = guard(|| f()) {
            let kind = if p.msg.contains("overflow") { "arithmetic-overflow" } else { "panic" };
            acc.vio(&format!("extreme-arg:{}:{}", name, kind), || json!({"ctx": ctx(), "argument": n, "panic": format!("{} {}", p.site, p.msg)}));
        }
    }
}

/// decimal spellings around every width boundary up to 2^126, with padding zeros and signs
pub fn extreme_number_texts() -> Vec<String> {
    let mut nums: Vec<String> = vec![];
    for k in [7u32, 8, 15, 16, 31, 32, 33, 62, 63, 64, 65, 126] {
        let p = 1i128 << k;
        for d in [-2i128, -1, 0, 1, 2] {
            nums.push((p + d).to_string());
            nums.push((-(p + d)).to_string());
        }
    }
    for s in ["0", "-0", "00", "-00000000001", "0000000000000000000000000000000000000001", "99999999999999999999999999999999999999999999999999", "-99999999999999999999999999999999999999999999999999", "2147483647", "-2147483648", "2147483648", "-2147483649", "4294967295", "4294967296"] {
        nums.push(s.to_string());
    }
    nums.sort();
    nums.dedup();
    nums
}

pub fn spaces(tier: Tier) -> Vec<Space<'static>> {
    let mut sp: Vec<Space> = vec![];
    let bound = if tier.thorough() { 4096 } else { 1024 };
    // depth sweeps: one space index per (op, shape, stack)
    let stacks = [8192usize, 2048];
    let combos: Vec<(usize, usize, usize)> = (0..OPS.len()).flat_map(|o| (0..3).flat_map(move |s| (0..2).map(move |k| (o, s, k)))).collect();
    let nc = combos.len() as u64;
    sp.push(Space::new("depth-sweeps(op x shape x stack)", nc, move |i, acc| {
        let (o, s, k) = combos[i as usize];
        // quick: the 8 MiB stack only gets the grid for the array shape to stay fast
        depth_sweep(OPS[o], s, stacks[k], bound, true, acc);
    }));
    // extreme arguments, in-process
    let docs: Vec<(RVal, Vec<u8>)> = extreme_docs().into_iter().map(|v| { let b = enc(&v); (v, b) }).collect();
    let nd = docs.len() as u64;
    let docs = std::sync::Arc::new(docs);
    let d1 = docs.clone();
    sp.push(Space::new("extreme-arguments", nd, move |i, acc| {
        let (v, b) = &d1[i as usize];
        let len = refmodel::ops::array_length(v).unwrap_or(0) as i32;
        let mut args: Vec<i32> = vec![i32::MIN, i32::MIN + 1, i32::MAX - 1, i32::MAX, i32::MIN + len, i32::MAX - len, i32::MIN + len + 1];
        args.extend((-len - 2)..=(len + 2));
        let text = if v.all_finite() { Some(refmodel::text::print(v).into_bytes()) } else { None };
        for n in args {
            acc.nontrivial += 1;
            extreme_one(b, n, acc, &|| json!({"doc": format!("{:?}", v), "hex": hex(b)}));
            // the same probes with the document given as JSON text (the text branches have their own index arithmetic)
            if let Some(t) = &text {
                extreme_one(t, n, acc, &|| json!({"doc_text": String::from_utf8_lossy(t)}));
            }
        }
        acc.sample(|| json!({"doc": format!("{:?}", v), "arguments": "i32::MIN, MIN+1, MAX-1, MAX, MIN+len, MAX-len, -len-2..len+2"}));
    }));
    // comparing: every ordered pair of the D2 documents, each wrapped in two more array levels (nested
    // containers of every small shape and of different sizes at the same position): a result or an
    // error, never a panic
    {
        let wrapped: std::sync::Arc<Vec<Vec<u8>>> = std::sync::Arc::new(crate::univ::d2().iter().map(|v| enc(&RVal::Arr(vec![RVal::Arr(vec![v.clone()]), RVal::u(1)]))).collect());
        let nw = wrapped.len();
        sp.push(Space::new("compare on every ordered pair of twice-wrapped D2 documents: never a panic", nw as u64, move |i, acc| {
            let a = &wrapped[i as usize];
            for b in wrapped.iter() {
                acc.eval();
                if let Err(p) = guard(|| { let _ = jsonb::compare(a, b); let _ = jsonb::contains(a, b); }) {
                    acc.vio(&format!("nested-pairs:compare-or-contains:{}", if p.msg.contains("overflow") { "arithmetic-overflow" } else { "panic" }), || json!({"a": hex(a), "b": hex(b), "panic": format!("{} {}", p.site, p.msg)}));
                }
            }
            acc.nontrivial += 1;
        }));
    }
    // extreme numbers written as text in key paths and JSONPath index positions: parse, print, evaluate
    {
        let nums = std::sync::Arc::new(extreme_number_texts());
        let d3 = docs.clone();
        sp.push(Space::new("extreme numbers as text in key paths and JSONPath index positions", nums.len() as u64, move |i, acc| {
            let n = &nums[i as usize];
            let (_, doc) = &d3[d3.len() - 1];
            let kps = [format!("{{{}}}", n), format!("{{0,{}}}", n), format!("{{ {} , a}}", n)];
            let jps = [format!("$[{}]", n), format!("$[last - {}]", n), format!("$[last + {}]", n), format!("$[last-{}]", n), format!("$[{} to last]", n), format!("$[0 to {}]", n), format!("$[{}, {}]", n, n), format!("$[*]?(@ == {})", n), format!("$.a[{} to {}]", n, n)];
            for t in kps.iter() {
                acc.eval();
                acc.nontrivial += 1;
                let r = guard(|| {
                    if let Ok(k) = jsonb::keypath::parse_key_paths(t.as_bytes()) {
                        let _ = format!("{}", k);
                        let _ = jsonb::get_by_keypath(doc, k.paths.iter());
                        let mut o = vec![];
                        let _ = jsonb::delete_by_keypath(doc, k.paths.iter(), &mut o);
                    }
                });
                if let Err(p) = r {
                    let kind = if p.msg.contains("overflow") { "arithmetic-overflow" } else { "panic" };
                    acc.vio(&format!("extreme-arg:key-path-text:{}", kind), || json!({"text": t, "panic": format!("{} {}", p.site, p.msg)}));
                }
            }
            for t in jps.iter() {
                acc.eval();
                acc.nontrivial += 1;
                let r = guard(|| {
                    if let Ok(p) = jsonb::jsonpath::parse_json_path(t.as_bytes()) {
                        let _ = format!("{}", p);
                        let (mut d, mut o) = (vec![], vec![]);
                        let _ = Selector::new(p, Mode::All).select(doc, &mut d, &mut o);
                    }
                });
                if let Err(p) = r {
                    let kind = if p.msg.contains("overflow") { "arithmetic-overflow" } else { "panic" };
                    acc.vio(&format!("extreme-arg:jsonpath-text:{}", kind), || json!({"text": t, "panic": format!("{} {}", p.site, p.msg)}));
                }
            }
        }));
    }
    if tier.thorough() {
        // every i32 value for the index-taking functions on 2 documents, in blocks of 2^16
        let d2 = docs.clone();
        sp.push(Space::new("every-i32-argument", 1 << 16, move |b, acc| {
            let targets = [&d2[d2.len() - 2].1, &d2[d2.len() - 1].1];
            let one = enc(&RVal::u(1));
            for lo in 0..(1u32 << 16) {
                let n = (((b as u32) << 16) | lo) as i32;
                for doc in targets {
                    let r = guard(|| {
                        let mut o = vec![];
                        let _ = jsonb::delete_by_index(doc, n, &mut o);
                        o.clear();
                        let _ = jsonb::array_insert(doc, n, &one, &mut o);
                        let kp = [jsonb::keypath::KeyPath::Index(n)];
                        let _ = jsonb::get_by_keypath(doc, kp.iter());
                        o.clear();
                        let _ = jsonb::delete_by_keypath(doc, kp.iter(), &mut o);
                    });
                    if let Err(p) = r {
                        acc.vio("extreme-arg:index-function:panic", || json!({"argument": n, "panic": format!("{} {}", p.site, p.msg)}));
                    }
                }
            }
            acc.evals(1 << 18);
            acc.nontrivial += 1 << 16;
        }));
    }
    sp
}

pub fn meta(tier: Tier) -> (String, serde_json::Value, Vec<String>) {
    (
        "ISOLATE: for every (operation x shape {array, object, alternating} x stack {8 MiB, 2 MiB}) EVERY nesting depth 1..bound in ascending order in a crash-isolated worker (each case on a thread with a pinned stack size; results mem::forget-ed so Rust's recursive drop glue is not part of the operation), then a fixed grid {2^k-1, 2^k, 2^k+1 : k<=18} + {100k, 200k, 300k} until the first abort; a dead worker is attributed to the announced case (smallest failing depth = witness). SWEEP: extreme integer arguments (i32::MIN, MIN+1, MAX-1, MAX, MIN+len, MAX-len, -len-2..len+2) for every index/position-taking function and JSONPath index form on the documents; thorough: every i32 value. Built with overflow-checks so silent wrap-around is an observable panic. Non-trivial = completed depth case / argument probe.".into(),
        json!({"exhaustive_depth_bound": if tier.thorough() {4096} else {1024}, "grid_above_bound": "2^k-1,2^k,2^k+1 (k<=18), 100k, 200k, 300k; stops at first abort per (op,shape,stack)", "operations": OPS, "to_pretty_string_max_depth": 4096}),
        vec!["between grid points above the bound depths are not covered".into(), "depth counters wider than 28 bits (N ~ 3*10^7) are out of reach".into()],
    )
}
