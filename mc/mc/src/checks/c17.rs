//! C17 — functions that write into a caller's buffer only append to it.
use crate::calls::*;
use crate::harness::*;
use crate::univ;
use refmodel::layout::{enc, hex};
use refmodel::RVal;
use serde_json::json;
use std::collections::HashSet;
use std::sync::Arc;

fn prefixes() -> Vec<Vec<u8>> {
    vec![
        vec![],
        vec![0xAB],
        vec![1, 2, 3, 4, 5],
        enc(&RVal::arr(vec![RVal::s("prior"), RVal::u(7)])),
        vec![0x80, 0, 0, 1, 0x40, 0x20, 0xFF],
        (0..1023u32).map(|i| (i * 7 + 3) as u8).collect(),
        // lengths 2 and 4 (every residue modulo 4 is present); the second one reads as an empty-array header
        vec![0x20, 0x00],
        vec![0x80, 0, 0, 0],
    ]
}

type Res = (Result<(), String>, Vec<u8>, Vec<u64>);

fn run_on(c: &BufCall, data: &[u8], offs: &[u64]) -> Result<Res, PanicInfo> {
    // every other prior buffer comes with spare capacity (no reallocation while appending)
    let mut d = Vec::with_capacity(data.len() + if data.len() % 2 == 1 { 8192 } else { 0 });
    d.extend_from_slice(data);
    let mut o = offs.to_vec();
    let r = guard(|| (c.run)(&mut d, &mut o))?;
    Ok((r.map_err(|e| format!("{:?}", e)), d, o))
}

fn check_call(c: &BufCall, pre: &[Vec<u8>], acc: &mut Acc, ctx: &dyn Fn() -> serde_json::Value) {
    let fname = c.label.split('(').next().unwrap_or("?").to_string();
    let base = match run_on(c, &[], &[]) {
        Ok(b) => b,
        Err(p) => {
            acc.eval();
            acc.outcome("panic-on-empty-buffer (judged by the property that owns the function)");
            let _ = p;
            return;
        }
    };
    if base.0.is_err() && (!base.1.is_empty() || !base.2.is_empty()) {
        acc.vio(&format!("{}:error-but-appended", fname), || json!({"ctx": ctx(), "call": c.label, "err": base.0, "buffer": hex(&base.1)}));
    }
    for (pi, p) in pre.iter().enumerate().skip(1) {
        acc.eval();
        let offs_pre: Vec<u64> = if pi % 2 == 0 { vec![7, 9] } else { vec![] };
        match run_on(c, p, &offs_pre) {
            Err(pn) => acc.vio(&format!("{}:{}-with-nonempty-buffer", fname, panic_class(&pn)), || json!({"ctx": ctx(), "call": c.label, "prefix_len": p.len()})),
            Ok((r, d, o)) => {
                if r.is_ok() != base.0.is_ok() {
                    acc.vio(&format!("{}:outcome-depends-on-buffer-content", fname), || json!({"ctx": ctx(), "call": c.label, "prefix_len": p.len(), "empty": base.0, "nonempty": r}));
                    continue;
                }
                if r.is_err() {
                    acc.outcome("error-untouched?");
                    if d != *p || o != offs_pre {
                        acc.vio(&format!("{}:error-but-appended", fname), || json!({"ctx": ctx(), "call": c.label, "prefix_len": p.len(), "err": r}));
                    }
                    continue;
                }
                acc.outcome("ok-appended?");
                if d.len() < p.len() || d[..p.len()] != p[..] {
                    acc.vio(&format!("{}:prior-bytes-modified", fname), || json!({"ctx": ctx(), "call": c.label, "prefix": hex(&p[..p.len().min(32)]), "after": hex(&d[..d.len().min(48)])}));
                } else if d[p.len()..] != base.1[..] {
                    acc.vio(&format!("{}:appended-bytes-differ-from-empty-buffer-output", fname), || json!({"ctx": ctx(), "call": c.label, "prefix_len": p.len(), "expected": hex(&base.1), "appended": hex(&d[p.len()..])}));
                }
                let exp_o: Vec<u64> = offs_pre.iter().cloned().chain(base.2.iter().map(|x| x + p.len() as u64)).collect();
                if o != exp_o {
                    acc.vio(&format!("{}:offsets-not-positions-in-the-callers-buffer", fname), || json!({"ctx": ctx(), "call": c.label, "prefix_len": p.len(), "expected": exp_o, "observed": o}));
                }
            }
        }
    }
}

pub fn spaces(tier: Tier) -> Vec<Space<'static>> {
    let mut sp: Vec<Space> = vec![];
    let pool = mkpool(pool8());
    let pre = Arc::new(prefixes());
    let d2 = univ::d2();
    let (p1, pre1) = (pool.clone(), pre.clone());
    sp.push(Space::new("d2-x-calls-x-prefixes", d2.len() as u64, move |i, acc| {
        let v = &d2[i as usize];
        let calls = buffer_calls(v, &Opts { extremes: false, pool: p1.clone(), sets: true });
        acc.nontrivial += calls.len() as u64;
        for c in &calls {
            check_call(c, &pre1, acc, &|| json!({"doc": format!("{:?}", v)}));
        }
        acc.sample(|| json!({"doc": format!("{:?}", v), "n_calls": calls.len(), "calls": calls.iter().step_by(37).map(|c| c.label.clone()).collect::<Vec<_>>()}));
    }));
    {
        // the editors with the document given as JSON text: the text branches have their own buffer handling
        let (p3, pre3) = (pool.clone(), pre.clone());
        sp.push(Space::new("d2 as JSON text x editing calls x prefixes", d2.len() as u64, move |i, acc| {
            let v = &d2[i as usize];
            if !v.all_finite() {
                return;
            }
            let text = refmodel::text::print(v);
            let calls: Vec<BufCall> = crate::calls::edit_calls_from(v, &Opts { extremes: false, pool: p3.clone(), sets: true }, text.clone().into_bytes())
                .into_iter()
                // the builders take JSONB parts only ("assuming that the input values is valid JSONB data")
                .filter(|c| !c.label.starts_with("build_"))
                .map(|c| { let run = c.run; BufCall { label: format!("text:{}", c.label), run: Box::new(move |d, _| run(d)) } })
                .collect();
            acc.nontrivial += calls.len() as u64;
            for c in &calls {
                check_call(c, &pre3, acc, &|| json!({"doc_text": text}));
            }
        }));
    }
    if tier.thorough() {
        let d1q = univ::d1q();
        let (p2, pre2) = (pool.clone(), pre.clone());
        sp.push(Space::new("d1q-x-calls-x-prefixes", d1q.len() as u64, move |i, acc| {
            let v = &d1q[i as usize];
            let calls = buffer_calls(v, &Opts { extremes: false, pool: p2.clone(), sets: true });
            acc.nontrivial += calls.len() as u64;
            for c in &calls {
                check_call(c, &pre2, acc, &|| json!({"doc": format!("{:?}", v)}));
            }
        }));
    }
    let sd = crate::checks::scale::docs().clone();
    sp.push(Space::new("scale (big outputs appended after a 3-byte prefix)", sd.len() as u64, move |i, acc| crate::checks::scale::editors(&sd[i as usize], &crate::checks::scale::small_pool(), acc)));
    // batches: explicit-state search where the state is the whole buffer (+ offsets vector)
    let depth = if tier.thorough() { 4 } else { 3 };
    sp.push(Space::new("batch-bfs", 1, move |_, acc| {
        let docs = [
            RVal::arr(vec![RVal::u(1), RVal::s("a"), RVal::Null]),
            RVal::obj(vec![("a", RVal::u(1)), ("b", RVal::arr(vec![RVal::Null]))]),
            RVal::s("é"),
            RVal::arr(vec![RVal::obj(vec![("a", RVal::u(1))]), RVal::arr(vec![RVal::u(1)])]),
        ];
        let pool = mkpool(pool8());
        let mut menu: Vec<BufCall> = vec![];
        for v in &docs {
            let all = buffer_calls(v, &Opts { extremes: false, pool: pool.clone(), sets: true });
            let n = all.len();
            // a fixed, evenly spaced selection of 10 calls per document (40 in total)
            for (k, c) in all.into_iter().enumerate() {
                if k % (n / 10).max(1) == 0 && menu.len() < 40 * (1 + menu.len() / 40) {
                    menu.push(c);
                }
            }
        }
        menu.truncate(40);
        let outs: Vec<Option<(Vec<u8>, Vec<u64>)>> = menu.iter().map(|c| match run_on(c, &[], &[]) { Ok((Ok(()), d, o)) => Some((d, o)), _ => None }).collect();
        let mut frontier: Vec<(Vec<u8>, Vec<u64>, Vec<usize>)> = vec![(vec![], vec![], vec![])];
        let mut seen: HashSet<(Vec<u8>, Vec<u64>)> = HashSet::new();
        seen.insert((vec![], vec![]));
        let mut transitions = 0u64;
        for _lvl in 0..depth {
            use rayon::prelude::*;
            let results: Vec<Vec<(Vec<u8>, Vec<u64>, Vec<usize>, Option<String>)>> = frontier
                .par_iter()
                .map(|(buf, offs, hist)| {
                    let mut next = vec![];
                    for (k, c) in menu.iter().enumerate() {
                        let mut h = hist.clone();
                        h.push(k);
                        match run_on(c, buf, offs) {
                            Err(p) => next.push((buf.clone(), offs.clone(), h, Some(format!("panic {}", p.msg)))),
                            Ok((r, d, o)) => {
                                let bad = match (&outs[k], r) {
                                    (Some((ed, eo)), Ok(())) => {
                                        let mut xd = buf.clone();
                                        xd.extend_from_slice(ed);
                                        let xo: Vec<u64> = offs.iter().cloned().chain(eo.iter().map(|x| x + buf.len() as u64)).collect();
                                        if d != xd {
                                            Some("buffer is not the concatenation of the individual outputs".to_string())
                                        } else if o != xo {
                                            Some("offsets are not positions in the shared buffer".to_string())
                                        } else {
                                            None
                                        }
                                    }
                                    (None, Err(_)) => {
                                        if d != *buf || o != *offs { Some("error but buffer changed".into()) } else { None }
                                    }
                                    _ => Some("outcome depends on buffer content".into()),
                                };
                                next.push((d, o, h, bad));
                            }
                        }
                    }
                    next
                })
                .collect();
            let mut nf = vec![];
            for (d, o, h, bad) in results.into_iter().flatten() {
                transitions += 1;
                if let Some(why) = bad {
                    acc.vio("batch:buffer-not-concatenation-of-individual-outputs", || json!({"history": h.iter().map(|k| menu[*k].label.clone()).collect::<Vec<_>>(), "why": why}));
                }
                if seen.insert((d.clone(), o.clone())) {
                    nf.push((d, o, h));
                }
            }
            frontier = nf;
        }
        acc.states += seen.len() as u64;
        acc.evals(transitions);
        acc.nontrivial += transitions;
        acc.note("batch-bfs states (distinct buffers)", seen.len() as u64);
        acc.note("batch-bfs transitions", transitions);
        acc.sample(|| json!({"batch_menu": menu.iter().map(|c| c.label.clone()).collect::<Vec<_>>()}));
    }));
    sp
}

pub fn meta(tier: Tier) -> (String, serde_json::Value, Vec<String>) {
    (
        "every buffer-writing function (editors, builders, array set functions, Value/LazyValue::write_to_vec, convert_to_comparable, get_by_path*, Selector::select in 4 modes over a 16-path menu (4 of them fail only after earlier items were selected)) x every document of the universe x 8 prior buffer contents (empty, 1, 2, 4, 5, 7 and 1023 bytes, a complete JSONB document; every length modulo 4; half of them with 8 KiB spare capacity) and a non-empty offsets vector: out(prefix) must be prefix ++ out(empty), offsets shifted by the prefix length, errors leave buffer and offsets untouched. Batches: breadth-first search over sequences of calls into ONE buffer, menu of 40 (function,input) pairs, state = whole buffer + offsets, deduplicated on full content. Non-trivial = every call (each is a distinct function/argument/prefix combination).".into(),
        json!({"universe": if tier.thorough() {"D2 and D1q"} else {"D2"}, "prefixes": 8, "batch_depth": if tier.thorough() {4} else {3}, "batch_menu": 40}),
        vec!["a panic on an empty buffer is judged by the property that owns the function, not here".into()],
    )
}
