//! C01 — binary encoding round-trips every value and is exactly the documented layout.
use crate::conv::*;
use crate::harness::*;
use crate::univ;
use refmodel::layout::{enc, hex, strict_dec};
use refmodel::{gen, RVal};
use serde_json::json;

pub fn check_value(v: &RVal, acc: &mut Acc) {
    acc.eval();
    if univ::width_nontrivial(v) {
        acc.nontrivial += 1;
    }
    let expect = enc(v);
    let val = to_value(v);
    let desc = |what: &str, got: &str| {
        json!({"value": format!("{:?}", v), "expected_hex": hex(&expect), "what": what, "observed": got})
    };
    // model self-test
    match strict_dec(&expect) {
        Ok(back) if back == *v => {}
        other => acc.vio("MODEL-SELFTEST:strict_dec(enc(v))!=v", || desc("model", &format!("{:?}", other))),
    }
    let got = match guard(|| val.to_vec()) {
        Ok(g) => g,
        Err(p) => {
            acc.vio(&format!("encode:{}", panic_class(&p)), || desc("to_vec panicked", &p.msg));
            return;
        }
    };
    if got != expect {
        acc.outcome("layout-mismatch");
        acc.vio("encode:layout-differs-from-README-encoder", || desc("to_vec", &hex(&got)));
    } else {
        acc.outcome("layout-ok");
    }
    let mut buf = Vec::new();
    val.write_to_vec(&mut buf);
    if buf != got {
        acc.vio("encode:write_to_vec!=to_vec", || desc("write_to_vec", &hex(&buf)));
    }
    {
        let lv = guard(|| { let l = jsonb::LazyValue::from(val.clone()); let mut w = vec![0xAA]; l.write_to_vec(&mut w); (l.to_vec(), w) });
        match lv {
            Ok((tv, w)) => {
                if tv != expect || w.len() < 1 || w[1..] != expect[..] {
                    acc.vio("encode:LazyValue::Value-bytes-differ", || desc("LazyValue::from(value).to_vec / write_to_vec", &hex(&tv)));
                }
            }
            Err(p) => acc.vio(&format!("encode:LazyValue:{}", panic_class(&p)), || desc("LazyValue", &p.msg)),
        }
    }
    for (name, r) in [
        ("parse_jsonb", guard(|| jsonb::parse_jsonb(&expect).map(|x| (from_value_raw(&x), x.to_vec(), x == val && val == x)))),
        ("from_slice", guard(|| jsonb::from_slice(&expect).map(|x| (from_value_raw(&x), x.to_vec(), x == val && val == x)))),
        // the lazy reader handed the same bytes: the tree it yields and the bytes it writes back
        ("parse_lazy_value", guard(|| jsonb::parse_lazy_value(&expect).map(|l| { let t = l.to_value().into_owned(); (from_value_raw(&t), l.to_vec(), t == val && val == t) }))),
    ] {
        match r {
            Err(p) => acc.vio(&format!("decode:{}:{}", name, panic_class(&p)), || desc(name, &p.msg)),
            Ok(Err(e)) => acc.vio(&format!("decode:{}:rejects-valid-encoding", name), || desc(name, &format!("{:?}", e))),
            Ok(Ok((back, re, eq))) => {
                if back != *v {
                    acc.vio(&format!("decode:{}:value-differs", name), || desc(name, &format!("{:?}", back)));
                }
                if re != expect {
                    acc.vio(&format!("decode:{}:reencode-differs", name), || desc(name, &hex(&re)));
                }
                if !eq {
                    acc.vio(&format!("decode:{}:not-equal-under-Value-eq", name), || desc(name, "decoded != original"));
                }
            }
        }
    }
    acc.sample(|| json!({"value": refmodel::text::print(&if v.all_finite() { v.clone() } else { RVal::Null }), "debug": format!("{:?}", v), "hex": hex(&expect)}));
}

pub fn spaces(tier: Tier) -> Vec<Space<'static>> {
    let mut sp: Vec<Space> = vec![];
    let d2 = univ::d2();
    sp.push(Space::new("d2", d2.len() as u64, move |i, acc| check_value(&d2[i as usize], acc)));
    let d1q = univ::d1q();
    sp.push(Space::new("d1q", d1q.len() as u64, move |i, acc| check_value(&d1q[i as usize], acc)));
    sp.push(Space::new("allcp-value+key", univ::N_CHARS * 2, |i, acc| {
        let c = univ::nth_char(i / 2);
        let s = c.to_string();
        let v = if i % 2 == 0 {
            RVal::Arr(vec![RVal::Str(s), RVal::u(1)])
        } else {
            let mut m = std::collections::BTreeMap::new();
            m.insert(s, RVal::u(1));
            m.insert("k".to_string(), RVal::Null);
            RVal::Obj(m)
        };
        check_value(&v, acc)
    }));
    let b64 = univ::b64_all();
    sp.push(Space::new("b64-slots", b64.len() as u64 * 6, move |i, acc| {
        let n = RVal::Num(b64[(i / 6) as usize]);
        let x = RVal::s("x");
        let y = RVal::Null;
        let v = match i % 6 {
            0 => n,
            1 => RVal::Arr(vec![n, x, y]),
            2 => RVal::Arr(vec![x, n, y]),
            3 => RVal::Arr(vec![y, x, n]),
            4 => RVal::obj(vec![("a", n), ("b", x)]),
            _ => RVal::obj(vec![("a", x), ("b", n)]),
        };
        check_value(&v, acc)
    }));
    let ss = univ::sstr();
    sp.push(Space::new("sstr-key-x-value", (ss.len() * ss.len()) as u64, move |i, acc| {
        let k = &ss[i as usize / ss.len()];
        let s = &ss[i as usize % ss.len()];
        let mut m = std::collections::BTreeMap::new();
        m.insert(k.clone(), RVal::Str(s.clone()));
        m.insert("zz".to_string(), RVal::Arr(vec![RVal::Str(s.clone()), RVal::Str(k.clone())]));
        check_value(&RVal::Obj(m), acc)
    }));
    {
        // documents that are just one string, including strings that spell JSON documents and every
        // rendering of a small document as a string (a string is a string, whatever it spells)
        let mut whole: Vec<String> = univ::sstr().clone();
        for v in univ::d2().iter() {
            whole.push(refmodel::text::print(v));
        }
        whole.push(" [1]".into());
        whole.push("[1] ".into());
        sp.push(Space::new("whole-document strings (SSTR and the text of every D2 document)", whole.len() as u64, move |i, acc| check_value(&RVal::Str(whole[i as usize].clone()), acc)));
    }
    {
        let tv = refmodel::gen::tagv_docs();
        sp.push(Space::new("tag-like payloads (bytes that look like headers, entry words, type tags) and keyword keys", tv.len() as u64, move |i, acc| check_value(&tv[i as usize], acc)));
    }
    let max_chain = if tier.thorough() { 64 } else { 16 };
    sp.push(Space::new("chains", max_chain * 3 * 2, move |i, acc| {
        let depth = (i / 6) as usize + 1;
        let shape = ((i / 2) % 3) as u8;
        let bottom = if i % 2 == 0 { RVal::u(256) } else { RVal::arr(vec![]) };
        check_value(&gen::chain(depth, shape, bottom), acc)
    }));
    {
        let u = refmodel::gen::d3e_uni();
        let n = u.count(3);
        sp.push(Space::new("d3e (depth 3 over {\"\", 1}: empty strings nested at every level)", n, move |i, acc| {
            let v = u.nth(3, i);
            check_value(&v, acc)
        }));
    }
    sp.push(Space::new("wide (4-6 siblings over 5 kinds)", refmodel::gen::wide_count(), |i, acc| crate::checks::scale::wide_deep_doc(&refmodel::gen::wide_nth(i), acc, 0)));
    sp.push(Space::new("deep (4-6 levels, 5 sibling patterns per level)", refmodel::gen::deep_count(), |i, acc| crate::checks::scale::wide_deep_doc(&refmodel::gen::deep_nth(i), acc, 0)));
    {
        let sz = std::sync::Arc::new(crate::checks::scale::sizes(tier));
        let n = sz.len() as u64 * crate::checks::scale::N_FAMILIES;
        sp.push(Space::new("size sweep: every N up to the limit x 5 families", n, move |i, acc| {
            let d = crate::checks::scale::sized_doc((i % crate::checks::scale::N_FAMILIES) as u8, sz[(i / crate::checks::scale::N_FAMILIES) as usize]);
            crate::checks::scale::whole_doc(&d, acc)
        }));
        sp.push(Space::new("depth sweep: every depth 1..=300 x 3 shapes", 300, |i, acc| crate::checks::scale::depth_ops(i as usize + 1, acc, 0)));
    }
    sp.push(Space::new("entry length field with its top bit set (payloads of more than 2^27 bytes)", crate::checks::scale::N_HUGE, |i, acc| crate::checks::scale::whole_doc(&crate::checks::scale::huge_doc(i), acc)));
    let sd = crate::checks::scale::docs().clone();
    sp.push(Space::new("scale (counts/lengths/offsets across 2^8, 2^16, 2^20)", sd.len() as u64, move |i, acc| crate::checks::scale::whole_doc(&sd[i as usize], acc)));
    if tier.thorough() {
        let d1 = univ::d1();
        sp.push(Space::new("d1", d1.len() as u64, move |i, acc| check_value(&d1[i as usize], acc)));
        let d3x = univ::d3x();
        sp.push(Space::new("d3x", d3x.count(3), move |i, acc| check_value(&d3x.nth(3, i), acc)));
        let d2k = univ::d2k();
        sp.push(Space::new("d2k", d2k.count(2), move |i, acc| check_value(&d2k.nth(2, i), acc)));
    }
    sp
}

pub fn meta(tier: Tier) -> (String, serde_json::Value, Vec<String>) {
    (
        "every value of the named universes (depth/width/scalar/key alphabets of DESIGN §2.4), every Unicode scalar value as string and as key, every B64 boundary number in every slot; a case is non-trivial when the value is a container holding a nested container or >=2 children of different payload widths; values are distinct by construction within a space".into(),
        json!({"universes": if tier.thorough() {"D2,D1q,ALLCP,B64x6 slots,SSTRxSSTR,chains<=64,D1,D3x,D2k"} else {"D2,D1q,ALLCP,B64x6 slots,SSTRxSSTR,chains<=16"}}),
        vec!["the README layout as transcribed in refmodel::layout is the documented layout".into()],
    )
}
