//! C08 — JSONPath evaluation returns exactly the items the path denotes.
//! C15 — selection modes and path predicates are mutually consistent (shares the enumeration).
use crate::harness::*;
use crate::pathconv::*;
use crate::univ;
use jsonb::jsonpath::{Mode, Selector};
use refmodel::jgen;
use refmodel::jpath::*;
use refmodel::layout::{enc, hex, strict_dec};
use refmodel::RVal;
use serde_json::json;
use std::sync::Arc;

pub struct Sel {
    pub res: Result<(), String>,
    pub data: Vec<u8>,
    pub offsets: Vec<u64>,
}

pub fn select(path: &jsonb::jsonpath::JsonPath<'static>, mode: Mode, doc: &[u8]) -> Result<Sel, PanicInfo> {
    let sel = Selector::new(path.clone(), mode);
    let mut data = vec![];
    let mut offsets = vec![];
    let r = guard(|| sel.select(doc, &mut data, &mut offsets))?;
    Ok(Sel { res: r.map_err(|e| format!("{:?}", e)), data, offsets })
}

/// split `data` at `offsets`; None if offsets are not strictly increasing / do not end at len
pub fn split(data: &[u8], offsets: &[u64]) -> Option<Vec<Vec<u8>>> {
    let mut out = vec![];
    let mut prev = 0usize;
    for &o in offsets {
        let o = o as usize;
        if o <= prev || o > data.len() {
            return None;
        }
        out.push(data[prev..o].to_vec());
        prev = o;
    }
    if prev != data.len() {
        return None;
    }
    Some(out)
}

pub fn doc_universe(tier: Tier) -> Arc<Vec<(RVal, Vec<u8>)>> {
    let mut v: Vec<RVal> = univ::d2().clone();
    v.extend([RVal::Bool(true), RVal::u(0), RVal::u(2), RVal::s("b"), RVal::f(1.0), RVal::i(-1)]);
    v.push(RVal::arr(vec![RVal::u(0), RVal::u(1), RVal::u(2), RVal::s("a"), RVal::Null, RVal::arr(vec![RVal::u(1)]), RVal::obj(vec![("a", RVal::u(1))])]));
    v.push(RVal::obj(vec![("a", RVal::arr(vec![RVal::u(1), RVal::u(2)])), ("b", RVal::arr(vec![RVal::u(2), RVal::s("a")]))]));
    v.push(RVal::obj(vec![("a", RVal::obj(vec![("a", RVal::u(1)), ("b", RVal::Null)])), ("b", RVal::u(2))]));
    let _ = tier;
    Arc::new(v.into_iter().map(|x| { let b = enc(&x); (x, b) }).collect())
}

pub fn subset(all: &Arc<Vec<(RVal, Vec<u8>)>>, n: usize) -> Arc<Vec<(RVal, Vec<u8>)>> {
    // the first n in enumeration order plus every scalar root and empty container and the hand-written documents
    let mut v: Vec<(RVal, Vec<u8>)> = all.iter().take(n).cloned().collect();
    for (x, b) in all.iter().skip(n) {
        if x.is_scalar() || x.node_count() == 1 {
            v.push((x.clone(), b.clone()));
        }
    }
    for x in all.iter().rev().take(3) {
        v.push(x.clone());
    }
    Arc::new(v)
}

pub fn judge(path: &JPath, ipath: &jsonb::jsonpath::JsonPath<'static>, doc: &RVal, bytes: &[u8], acc: &mut Acc) {
    let sel = Selector::new(ipath.clone(), Mode::All);
    judge_with(&sel, path, doc, bytes, acc)
}

/// `sel` may have been used on other documents before: a selector must not carry state from one
/// document to the next
pub fn judge_with<'a>(sel: &'a Selector<'a>, path: &JPath, doc: &RVal, bytes: &'a [u8], acc: &mut Acc) {
    acc.eval();
    let ctx = || json!({"path": print_path(path), "doc": format!("{:?}", doc), "doc_hex": hex(bytes)});
    let model = eval(path, doc);
    let r = {
        let mut data = vec![];
        let mut offsets = vec![];
        guard(|| sel.select(bytes, &mut data, &mut offsets)).map(|r| Sel { res: r.map_err(|e| format!("{:?}", e)), data, offsets })
    };
    let s = match r {
        Ok(s) => s,
        Err(p) => {
            acc.outcome("panic");
            acc.vio(&format!("select:{}", panic_class(&p)), ctx);
            return;
        }
    };
    match (&model, &s.res) {
        (EvalResult::Unsupported, Err(_)) => acc.outcome("unsupported-reported-as-error"),
        (EvalResult::Unsupported, Ok(())) => {
            // nothing reached the unsupported expression (e.g. a filter over an empty array):
            // the property only demands "an error, never a panic" when the evaluator has to handle it
            if refmodel::jpath::arith_must_be_evaluated(path, doc) {
                acc.outcome("unsupported-evaluated-without-error");
                acc.vio("select:unsupported-expression-evaluated-without-an-error", ctx);
            } else {
                acc.unspecified += 1;
                acc.outcome("unsupported-never-evaluated")
            }
        }
        (_, Err(e)) => acc.vio("select:error-on-supported-path", || json!({"ctx": ctx(), "err": e})),
        (EvalResult::Predicate(t), Ok(())) => {
            let exp_t = enc(&RVal::Bool(true));
            let exp_f = enc(&RVal::Bool(false));
            let got = if s.data == exp_t { Some(true) } else if s.data == exp_f { Some(false) } else { None };
            match (t, got) {
                (_, None) => acc.vio("predicate:result-is-not-a-boolean-document", || json!({"ctx": ctx(), "data": hex(&s.data)})),
                (Tri::U, _) => {
                    acc.unspecified += 1;
                    acc.outcome("predicate-unspecified");
                }
                (Tri::T, Some(b)) | (Tri::F, Some(b)) => {
                    acc.outcome(if b { "predicate-true" } else { "predicate-false" });
                    if b != (*t == Tri::T) {
                        acc.vio("predicate:wrong-boolean", || json!({"ctx": ctx(), "expected": *t == Tri::T, "observed": b}));
                    }
                }
            }
        }
        (EvalResult::Items(items), Ok(())) => {
            let Some(parts) = split(&s.data, &s.offsets) else {
                acc.vio("select:offsets-do-not-delimit-items", || json!({"ctx": ctx(), "data": hex(&s.data), "offsets": s.offsets}));
                return;
            };
            let mut obs = vec![];
            for p in &parts {
                match strict_dec(p) {
                    Ok(v) => obs.push(v),
                    Err(why) => {
                        acc.vio("select:item-not-canonical-jsonb", || json!({"ctx": ctx(), "item": hex(p), "why": why}));
                        return;
                    }
                }
            }
            if items.iter().any(|(_, c)| !*c) {
                acc.unspecified += 1;
            }
            if items.len() >= 1 {
                acc.nontrivial += 1;
            }
            acc.outcome(match obs.len() { 0 => "items-0", 1 => "items-1", 2 => "items-2", _ => "items-3+" });
            if !seq_matches(items, &obs) {
                let root_scalar_filter = doc.is_scalar() || items.iter().any(|(v, _)| v == doc && doc.is_scalar());
                let class = if obs.len() < items.iter().filter(|(_, c)| *c).count() { if root_scalar_filter { "select:items-missing:scalar-root" } else { "select:items-missing" } } else { "select:wrong-items" };
                acc.vio(class, || json!({"ctx": ctx(), "expected": format!("{:?}", items), "observed": format!("{:?}", obs)}));
            }
        }
    }
    acc.sample(|| json!({"path": print_path(path), "doc": format!("{:?}", doc)}));
}

/// a fixed arena: successive documents are copied to the SAME address, as a caller reusing a row
/// buffer would do (state keyed by addresses inside a reused `Selector` becomes observable)
pub fn at_fixed_address(bytes: &[u8]) -> &'static [u8] {
    thread_local! {
        static ARENA: *mut u8 = Box::leak(vec![0u8; 1 << 20].into_boxed_slice()).as_mut_ptr();
    }
    assert!(bytes.len() <= 1 << 20);
    ARENA.with(|p| unsafe {
        // no reference handed out earlier is used again after this overwrite
        std::ptr::copy_nonoverlapping(bytes.as_ptr(), *p, bytes.len());
        std::slice::from_raw_parts(*p, bytes.len())
    })
}

/// the convenience entry points, writing behind earlier content of the caller's buffer: what they
/// append must be the first item / the array of all items / the item or the array (two or more)
pub fn judge_convenience(path: &JPath, ipath: &jsonb::jsonpath::JsonPath<'static>, doc: &RVal, bytes: &[u8], acc: &mut Acc) {
    let model = eval(path, doc);
    let expect: [Option<Vec<u8>>; 3] = match &model {
        EvalResult::Items(items) if items.iter().all(|(_, c)| *c) => {
            let vals: Vec<RVal> = items.iter().map(|(v, _)| v.clone()).collect();
            let first = vals.first().map(enc).unwrap_or_default();
            let arr = enc(&RVal::Arr(vals.clone()));
            let mixed = match vals.len() { 0 => vec![], 1 => enc(&vals[0]), _ => arr.clone() };
            [Some(mixed), Some(first), Some(arr)]
        }
        EvalResult::Predicate(t) if *t != Tri::U => {
            let b = enc(&RVal::Bool(*t == Tri::T));
            [Some(b.clone()), Some(b.clone()), Some(b)]
        }
        _ => return,
    };
    const PREFIX: [u8; 5] = [0x80, 0x00, 0x00, 0x01, 0x7F];
    for (k, name) in ["get_by_path", "get_by_path_first", "get_by_path_array"].iter().enumerate() {
        acc.eval();
        let mut data = PREFIX.to_vec();
        let mut offs: Vec<u64> = vec![3];
        let r = guard(|| match k {
            0 => jsonb::get_by_path(bytes, ipath.clone(), &mut data, &mut offs),
            1 => jsonb::get_by_path_first(bytes, ipath.clone(), &mut data, &mut offs),
            _ => jsonb::get_by_path_array(bytes, ipath.clone(), &mut data, &mut offs),
        });
        let ctx = || json!({"path": print_path(path), "doc": format!("{:?}", doc), "doc_hex": hex(bytes), "function": name});
        match r {
            Err(p) => acc.vio(&format!("{}:{}", name, panic_class(&p)), ctx),
            Ok(Err(e)) => acc.vio(&format!("{}:error-on-supported-path", name), || json!({"ctx": ctx(), "err": format!("{:?}", e)})),
            Ok(Ok(())) => {
                let exp = expect[k].as_ref().unwrap();
                if data.len() < 5 || data[..5] != PREFIX {
                    acc.vio(&format!("{}:earlier-buffer-content-modified", name), || json!({"ctx": ctx(), "buffer": hex(&data)}));
                } else if data[5..] != exp[..] {
                    acc.vio(&format!("{}:appended-bytes-are-not-the-denoted-items", name), || json!({"ctx": ctx(), "expected": hex(exp), "appended": hex(&data[5..])}));
                }
            }
        }
    }
}

pub struct PathSet {
    pub name: String,
    pub paths: Arc<Vec<(JPath, jsonb::jsonpath::JsonPath<'static>)>>,
    pub docs: Arc<Vec<(RVal, Vec<u8>)>>,
}

/// Each model path is paired with the jsonb path built directly from it; when jsonb's own parser
/// reads the path's text as a DIFFERENT structure (number representation of a literal, a name read
/// differently, ...), that parsed path is evaluated too: the property is about paths as the parser
/// delivers them.
pub fn mk(paths: Vec<JPath>) -> Arc<Vec<(JPath, jsonb::jsonpath::JsonPath<'static>)>> {
    let mut out = Vec::with_capacity(paths.len());
    for p in paths {
        let i = to_impl_path(&p);
        let text: &'static str = Box::leak(print_path(&p).into_boxed_str());
        let parsed = guard(|| jsonb::jsonpath::parse_json_path(text.as_bytes()).ok()).ok().flatten();
        if let Some(q) = parsed {
            // (structural comparison: jsonb's own `==` on paths compares number literals by value)
            if format!("{:?}", q) != format!("{:?}", i) {
                out.push((p.clone(), q));
            }
        }
        // the other documented spelling of "not equal"
        if text.contains(" != ") {
            let alt: &'static str = Box::leak(text.replace(" != ", " <> ").into_boxed_str());
            if let Some(q) = guard(|| jsonb::jsonpath::parse_json_path(alt.as_bytes()).ok()).ok().flatten() {
                if format!("{:?}", q) != format!("{:?}", i) {
                    out.push((p.clone(), q));
                }
            }
        }
        // the same path with as few parentheses as the documented precedence allows (`a || b && c`):
        // whatever structure the parser gives it, it must denote the same items
        let min = print_path_min_parens(&p);
        if min != text {
            let mtext: &'static str = Box::leak(min.into_boxed_str());
            if let Some(q) = guard(|| jsonb::jsonpath::parse_json_path(mtext.as_bytes()).ok()).ok().flatten() {
                if format!("{:?}", q) != format!("{:?}", i) {
                    out.push((p.clone(), q));
                }
            }
        }
        out.push((p, i));
    }
    Arc::new(out)
}

pub fn path_sets(tier: Tier) -> Vec<PathSet> {
    let docs = doc_universe(tier);
    let sub = subset(&docs, if tier.thorough() { 1200 } else { 300 });
    let small = subset(&docs, if tier.thorough() { 300 } else { 60 });
    let mut v = vec![
        PathSet { name: "plain<=2-steps x all-docs".into(), paths: mk(jgen::plain_paths(2)), docs: docs.clone() },
        PathSet { name: "plain-3-steps x subset".into(), paths: mk(jgen::plain_paths(3).into_iter().filter(|p| p.0.len() == 4).collect()), docs: if tier.thorough() { docs.clone() } else { sub.clone() } },
        PathSet { name: "1-step-filter x all-docs".into(), paths: mk(jgen::filter_paths(1, &jgen::filters_full())), docs: docs.clone() },
        PathSet { name: "2-steps-one-filter x subset".into(), paths: mk(jgen::filter_paths(2, &jgen::filters_full())), docs: sub.clone() },
        PathSet { name: "3-steps-one-filter(reduced) x small-subset".into(), paths: mk(jgen::filter_paths(3, &jgen::filters_reduced())), docs: small.clone() },
        PathSet { name: "predicates x all-docs".into(), paths: mk(jgen::predicate_paths()), docs: docs.clone() },
        PathSet { name: "arithmetic (top level, nested under exists, after a connective, in a second filter) x all-docs".into(), paths: mk(jgen::arithmetic_paths()), docs: docs.clone() },
    ];
    // deeper and wider documents so that 3- and 4-step paths actually reach something
    let deep: Arc<Vec<(RVal, Vec<u8>)>> = Arc::new(
        (0..refmodel::gen::deep_count())
            .step_by(if tier.thorough() { 13 } else { 97 })
            .map(refmodel::gen::deep_nth)
            .chain((0..refmodel::gen::wide_count()).step_by(if tier.thorough() { 53 } else { 397 }).map(refmodel::gen::wide_nth))
            .map(|x| { let b = enc(&x); (x, b) })
            .collect(),
    );
    v.push(PathSet { name: "plain<=3-steps x deep/wide docs".into(), paths: mk(jgen::plain_paths(3)), docs: deep.clone() });
    v.push(PathSet { name: "2-steps-one-filter(reduced) x deep/wide docs".into(), paths: mk(jgen::filter_paths(2, &jgen::filters_reduced())), docs: deep.clone() });
    {
        let kdocs: Arc<Vec<(RVal, Vec<u8>)>> = Arc::new(refmodel::gen::keyorder_docs().into_iter().flat_map(|d| [d.clone(), RVal::Arr(vec![RVal::u(7), d.clone()]), RVal::obj(vec![("a", d)])]).map(|x| { let b = enc(&x); (x, b) }).collect());
        let mut kp = vec![];
        for k in refmodel::gen::ORDER_KEYS {
            if k.is_empty() {
                continue;
            }
            for pre in [vec![Step::Root], vec![Step::Root, Step::Indices(vec![AIdx::One(Idx::N(1))])], vec![Step::Root, Step::Dot("a".into())]] {
                for st in [Step::Dot(k.to_string()), Step::ObjField(k.to_string())] {
                    let mut s = pre.clone();
                    s.push(st);
                    kp.push(JPath(s));
                }
            }
            kp.push(JPath(vec![Step::Root, Step::DotWild, Step::Filter(Box::new(Expr::Exists(vec![Step::Current, Step::Dot(k.to_string())])))]));
        }
        kp.push(JPath(vec![Step::Root, Step::ObjField("".into())]));
        v.push(PathSet { name: "member steps over the key-order universe".into(), paths: mk(kp), docs: kdocs });
    }
    {
        // member names that are keywords of the path language or literals
        let kw = refmodel::gen::KEYWORD_KEYS;
        let mut kd: Vec<RVal> = vec![];
        for (i, k) in kw.iter().enumerate() {
            let k2 = kw[(i + 1) % kw.len()];
            kd.push(RVal::obj(vec![(k, RVal::u(1)), (k2, RVal::arr(vec![RVal::s("x"), RVal::Null]))]));
            kd.push(RVal::Arr(vec![RVal::obj(vec![(k, RVal::obj(vec![(k2, RVal::Bool(true))]))]), RVal::s(k)]));
        }
        kd.push(RVal::Obj(kw.iter().enumerate().map(|(i, k)| (k.to_string(), RVal::u(i as u64))).collect()));
        let kdocs: Arc<Vec<(RVal, Vec<u8>)>> = Arc::new(kd.into_iter().map(|x| { let b = enc(&x); (x, b) }).collect());
        let mut kp = vec![];
        for k in kw {
            let simple = k.chars().all(|c| c.is_ascii_alphabetic());
            let mut forms = vec![Step::ObjField(k.to_string())];
            if simple {
                forms.push(Step::Dot(k.to_string()));
                forms.push(Step::Colon(k.to_string()));
            }
            for st in forms {
                kp.push(JPath(vec![Step::Root, st.clone()]));
                kp.push(JPath(vec![Step::Root, Step::BracketWild, st.clone()]));
                kp.push(JPath(vec![Step::Root, Step::DotWild, Step::Filter(Box::new(Expr::Exists(vec![Step::Current, st.clone()])))]));
                kp.push(JPath(vec![Step::Root, st.clone(), Step::Filter(Box::new(Expr::Cmp(Cmp::Eq, Box::new(Expr::Paths(vec![Step::Current])), Box::new(Expr::Lit(Lit::Num(refmodel::RNum::U(1)))))))]));
                kp.push(JPath(vec![Step::Predicate(Box::new(Expr::Cmp(Cmp::Ge, Box::new(Expr::Paths(vec![Step::Root, st.clone()])), Box::new(Expr::Lit(Lit::Num(refmodel::RNum::U(1)))))))]));
            }
        }
        v.push(PathSet { name: "member names that are keywords (last, to, exists, null, true, false, $, @)".into(), paths: mk(kp), docs: kdocs });
    }
    {
        // number literals of every representation and magnitude against number documents
        let nv: Vec<RVal> = crate::univ::num_variants(false);
        let mut nd: Vec<RVal> = vec![RVal::Arr(nv.clone()), RVal::Arr(vec![])];
        for n in &nv {
            nd.push(n.clone());
            nd.push(RVal::Arr(vec![n.clone()]));
            nd.push(RVal::obj(vec![("a", n.clone())]));
        }
        let ndocs: Arc<Vec<(RVal, Vec<u8>)>> = Arc::new(nd.into_iter().map(|x| { let b = enc(&x); (x, b) }).collect());
        let mut np = vec![];
        let cur = Expr::Paths(vec![Step::Current]);
        let root_a = Expr::Paths(vec![Step::Root, Step::Dot("a".into())]);
        for n in &nv {
            let RVal::Num(n) = n else { continue };
            let lit = Expr::Lit(Lit::Num(*n));
            for c in jgen::CMPS {
                np.push(JPath(vec![Step::Root, Step::BracketWild, Step::Filter(Box::new(Expr::Cmp(c, Box::new(cur.clone()), Box::new(lit.clone()))))]));
                np.push(JPath(vec![Step::Root, Step::BracketWild, Step::Filter(Box::new(Expr::Cmp(c, Box::new(lit.clone()), Box::new(cur.clone()))))]));
                np.push(JPath(vec![Step::Predicate(Box::new(Expr::Cmp(c, Box::new(root_a.clone()), Box::new(lit.clone()))))]));
            }
        }
        v.push(PathSet { name: "number literals (every representation, 2^53 / 2^63 / 2^64 neighbours, -0.0) x number documents".into(), paths: mk(np), docs: ndocs });
    }
    if tier.thorough() {
        v.push(PathSet { name: "plain-4-steps x deep/wide docs".into(), paths: mk(jgen::plain_paths(4).into_iter().filter(|p| p.0.len() == 5).collect()), docs: deep.clone() });
        v.push(PathSet { name: "plain-4-steps x small-subset".into(), paths: mk(jgen::plain_paths(4).into_iter().filter(|p| p.0.len() == 5).collect()), docs: small });
    }
    v
}

pub fn spaces(tier: Tier) -> Vec<Space<'static>> {
    let mut sp: Vec<Space> = vec![];
    // every token string up to a length bound that jsonb's parser ACCEPTS is evaluated: the
    // structure the parser delivered is converted to the model AST and both are run on a document
    // set ("for every path the parser accepts": never a panic, and the items the structure denotes)
    {
        let toks = crate::checks::c09::TOKENS;
        let nt = toks.len() as u64;
        let l: u32 = if tier.thorough() { 5 } else { 4 };
        let total: u64 = (0..=l).map(|k| nt.pow(k)).sum();
        let docs: Arc<Vec<(RVal, Vec<u8>)>> = Arc::new(
            [
                RVal::arr(vec![RVal::u(1), RVal::obj(vec![("a", RVal::u(1))])]),
                RVal::obj(vec![("a", RVal::arr(vec![RVal::u(1), RVal::f(1.5)])), ("b", RVal::Null)]),
                RVal::u(1),
                RVal::s("a"),
                RVal::arr(vec![]),
                RVal::obj(vec![]),
                RVal::arr(vec![RVal::arr(vec![RVal::u(1)]), RVal::arr(vec![RVal::Null, RVal::s("a"), RVal::Bool(true)])]),
                RVal::obj(vec![("a", RVal::obj(vec![("a", RVal::u(1)), ("", RVal::s(""))])), ("1", RVal::f(1.5))]),
                RVal::Null,
                RVal::Bool(true),
            ]
            .into_iter()
            .map(|x| { let b = enc(&x); (x, b) })
            .collect(),
        );
        sp.push(Space::new("token-soup paths: every token string jsonb's parser accepts, evaluated as parsed x 10 documents", total.div_ceil(256), move |blk, acc| {
            for idx in (blk * 256)..((blk + 1) * 256).min(total) {
                let mut i = idx;
                let mut len = 0;
                let mut c = 1;
                while i >= c {
                    i -= c;
                    c *= nt;
                    len += 1;
                }
                let mut text: Vec<u8> = vec![];
                for _ in 0..len {
                    text.extend_from_slice(toks[(i % nt) as usize]);
                    i /= nt;
                }
                // whether it is accepted, and as what, is C09's question
                if !matches!(guard(|| jsonb::jsonpath::parse_json_path(&text).is_ok()), Ok(true)) {
                    continue;
                }
                let st: &'static [u8] = Box::leak(text.into_boxed_slice());
                let Ok(ip) = jsonb::jsonpath::parse_json_path(st) else { continue };
                let g = from_impl_path(&ip);
                acc.nontrivial += 1;
                for (d, b) in docs.iter() {
                    judge(&g, &ip, d, b, acc);
                }
            }
        }));
    }
    {
        let paths = mk(crate::checks::scale::path_menu());
        let sd = crate::checks::scale::docs().clone();
        sp.push(Space::new("scale: path menu x big documents", paths.len() as u64, move |i, acc| {
            let (p, ip) = &paths[i as usize];
            for d in sd.iter() {
                if d.bytes.len() > 700_000 {
                    continue;
                }
                judge(p, ip, &d.val, &d.bytes, acc);
            }
        }));
    }
    {
        let sz = std::sync::Arc::new(crate::checks::scale::sizes_heavy(tier));
        sp.push(Space::new("size sweep: every N up to the limit x 4 families x 13 paths", sz.len() as u64, move |i, acc| crate::checks::scale::sized_paths(sz[i as usize], acc, false)));
    }
    // numbers around every width boundary in index / offset / range positions, written as text: where
    // the model grammar assigns the text a meaning, the parsed path must select what that meaning selects
    {
        let nums = crate::checks::c20::extreme_number_texts();
        let docs: Arc<Vec<(RVal, Vec<u8>)>> = Arc::new(
            [RVal::Arr((0..5).map(RVal::u).collect()), RVal::Arr(vec![RVal::s("only")]), RVal::arr(vec![]), RVal::obj(vec![("a", RVal::Arr(vec![RVal::u(1), RVal::Null, RVal::s("x")]))]), RVal::u(7)]
                .into_iter()
                .map(|x| { let b = enc(&x); (x, b) })
                .collect(),
        );
        sp.push(Space::new("extreme numbers as text in index, offset and range positions, evaluated", nums.len() as u64, move |i, acc| {
            let n = &nums[i as usize];
            for t in [format!("$[{}]", n), format!("$[last - {}]", n), format!("$[last + {}]", n), format!("$[{} to last]", n), format!("$[0 to {}]", n), format!("$[0 to last - {}]", n), format!("$[last - {} to last]", n), format!("$[last + {} to last]", n), format!("$.a[{} to {}]", n, n), format!("$.a[0 to last + {}]", n)] {
                let refmodel::jparse::Verdict::Accept(m) = refmodel::jparse::parse_path(t.as_bytes()) else { continue };
                let st: &'static [u8] = Box::leak(t.clone().into_bytes().into_boxed_slice());
                let Ok(Ok(ip)) = guard(|| jsonb::jsonpath::parse_json_path(st)) else { continue };
                acc.nontrivial += 1;
                for (d, b) in docs.iter() {
                    judge(&m, &ip, d, b, acc);
                }
            }
        }));
    }
    for ps in path_sets(tier) {
        let n = ps.paths.len() as u64;
        let (paths, docs) = (ps.paths.clone(), ps.docs.clone());
        sp.push(Space::new(&ps.name, n, move |i, acc| {
            let (p, ip) = &paths[i as usize];
            // ONE selector per path, applied to every document in turn (and a fresh one per
            // document on the way back), so state leaking between evaluations is observable
            let sel = Selector::new(ip.clone(), Mode::All);
            for (d, b) in docs.iter() {
                judge_with(&sel, p, d, b, acc);
            }
            // on the way back each document is placed at the same address
            for (d, b) in docs.iter().rev().take(40) {
                judge_with(&sel, p, d, at_fixed_address(b), acc);
            }
            for (d, b) in docs.iter().take(25).chain(docs.iter().rev().take(15)) {
                judge_convenience(p, ip, d, b, acc);
            }
        }));
    }
    sp
}

pub fn meta(_tier: Tier) -> (String, serde_json::Value, Vec<String>) {
    (
        "programs x inputs: every step sequence up to the bound over a 16-step alphabet (names in three spellings, both wildcards, index lists with repetition and reversal, ranges, last+-k, out-of-range and negative indices), with one filter step at every position drawn from the full filter grammar (17 operands x 17 operands x 6 comparisons, exists forms with a nested filter, &&/||/parenthesised compounds), stand-alone predicates, arithmetic forms; each applied to every document of the document universe (D2 + scalar roots + hand-shaped documents) or the stated subset. The implementation's Selector::select(All) output is split at the reported offsets, each item strictly validated and compared in order, with repetitions, with the model evaluator's items. Three-valued where the README is silent (ordering and != across kinds). Non-trivial = the model selects at least one item.".into(),
        json!({"doc_universe": "D2 (2,149) + 9 extra documents", "filters_full": jgen::filters_full().len(), "predicates": jgen::predicates().len()}),
        vec!["paths are constructed as ASTs (the parser is judged by C09)".into()],
    )
}
