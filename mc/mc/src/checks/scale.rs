//! Scale universe: documents whose counts, payload lengths and offsets cross the byte boundaries of
//! the 28/29-bit fields (255/256/257, 65535/65536 elements or bytes, offsets beyond 64 KiB, 1 MiB).
//! The small universes never leave the first byte of any length field; these documents do.
//! Arguments are boundary-focused (first / second / middle / last / one past) instead of exhaustive.
use crate::checks::c05::to_keypath;
use crate::conv::*;
use crate::harness::*;
#[allow(unused_imports)]
use crate::harness::Tier;
use refmodel::layout::{enc, strict_dec};
use refmodel::ops::{self, KP};
use refmodel::RVal;
use serde_json::json;
use std::collections::BTreeMap;
use std::sync::{Arc, OnceLock};

pub struct SDoc {
    pub name: String,
    pub val: RVal,
    pub bytes: Vec<u8>,
}

fn s(n: usize, c: char) -> RVal {
    RVal::Str(std::iter::repeat(c).take(n).collect())
}
fn arr_n(n: usize) -> RVal {
    RVal::Arr((0..n).map(|i| RVal::u(i as u64)).collect())
}
fn obj_n(n: usize) -> RVal {
    RVal::Obj((0..n).map(|i| (format!("k{:05}", i), RVal::u(i as u64))).collect())
}

pub fn docs() -> &'static Arc<Vec<SDoc>> {
    static D: OnceLock<Arc<Vec<SDoc>>> = OnceLock::new();
    D.get_or_init(|| {
        let mut v: Vec<(String, RVal)> = vec![];
        for n in [255usize, 256, 65535, 65536, 1 << 20] {
            v.push((format!("string of {} bytes", n), s(n, 'x')));
        }
        v.push(("string of 65536 two-byte characters".into(), s(65536, 'é')));
        for n in [255usize, 256, 257, 65535, 65536] {
            v.push((format!("array of {} numbers", n), arr_n(n)));
        }
        v.push(("array of 300 strings then null and [1]".into(), {
            let mut a: Vec<RVal> = (0..300).map(|i| RVal::Str(format!("s{:03}", i))).collect();
            a.push(RVal::Null);
            a.push(RVal::arr(vec![RVal::u(1)]));
            RVal::Arr(a)
        }));
        v.push(("70000-byte string first, then small siblings".into(), RVal::arr(vec![s(70000, 'a'), RVal::u(1), RVal::s("a"), RVal::arr(vec![RVal::u(1), RVal::u(2)]), RVal::obj(vec![("a", RVal::u(1))])])));
        v.push(("small siblings, then 70000-byte string last".into(), RVal::arr(vec![RVal::u(1), RVal::s("a"), RVal::Null, s(70000, 'b')])));
        for n in [255usize, 256, 257, 4096] {
            v.push((format!("object of {} members", n), obj_n(n)));
        }
        v.push(("object: 70000-byte value first".into(), RVal::obj(vec![("a", s(70000, 'q')), ("b", RVal::u(1)), ("c", RVal::arr(vec![RVal::u(1), RVal::Null, RVal::u(3)]))])));
        v.push(("object: 70000-byte value last".into(), RVal::obj(vec![("a", RVal::u(1)), ("b", RVal::Null), ("c", s(70000, 'r'))])));
        v.push(("object with a 300-byte and a 70000-byte key".into(), {
            let mut m = BTreeMap::new();
            m.insert("k".repeat(300), RVal::u(1));
            m.insert("z".repeat(70000), RVal::u(2));
            m.insert("a".to_string(), RVal::s("v"));
            RVal::Obj(m)
        }));
        v.push(("nested: [array(256), object(256), \"x\"]".into(), RVal::arr(vec![arr_n(256), obj_n(256), RVal::s("x")])));
        v.push(("nested: {big: array(65536), z: 1}".into(), RVal::obj(vec![("big", arr_n(65536)), ("z", RVal::u(1))])));
        v.push(("nested: [[70000-byte string], {a: 70000-byte string, b: null}, 7]".into(), RVal::arr(vec![RVal::arr(vec![s(70000, 'm')]), RVal::obj(vec![("a", s(70000, 'n')), ("b", RVal::Null)]), RVal::u(7)])));
        v.push(("array of 300 empty containers and nulls".into(), RVal::Arr((0..300).map(|i| match i % 3 { 0 => RVal::arr(vec![]), 1 => RVal::obj(vec![]), _ => RVal::Null }).collect())));
        Arc::new(v.into_iter().map(|(name, val)| { let bytes = enc(&val); SDoc { name, val, bytes } }).collect())
    })
}

/// Documents whose entry LENGTH field (28 bits) uses its top bit: a string, and a nested container, of
/// more than 2^27 bytes, each followed by siblings whose offsets depend on that length. Built per call
/// and not cached (1/8 GiB each).
pub const N_HUGE: u64 = 2;
pub fn huge_doc(i: u64) -> SDoc {
    let n = (1usize << 27) + 5;
    let (name, val) = match i {
        0 => ("array: string of 2^27+5 bytes, then 7 and \"t\"", RVal::arr(vec![s(n, 'x'), RVal::u(7), RVal::s("t")])),
        _ => ("array: [string of 2^27+5 bytes] (a nested container of more than 2^27 bytes), then 7", RVal::arr(vec![RVal::arr(vec![s(n, 'y')]), RVal::u(7)])),
    };
    let bytes = enc(&val);
    SDoc { name: name.into(), val, bytes }
}

/// boundary indices for a list of length n
pub fn idxs(n: usize) -> Vec<usize> {
    let mut v = vec![0, 1, n / 2, n.saturating_sub(2), n.saturating_sub(1), n, n + 1, 254, 255, 256, 257, 65535, 65536];
    v.sort();
    v.dedup();
    v
}

pub fn keys_of(v: &RVal) -> Vec<String> {
    match v {
        RVal::Obj(o) => {
            let ks: Vec<&String> = o.keys().collect();
            let n = ks.len();
            let mut out: Vec<String> = [0, 1, n / 2, n.saturating_sub(1)].iter().filter(|i| **i < n).map(|i| ks[*i].clone()).collect();
            for i in [254usize, 255, 256] {
                if i < n {
                    out.push(ks[i].clone());
                }
            }
            out.push("zzz-absent".into());
            out.push("K00001".into());
            out.sort();
            out.dedup();
            out
        }
        _ => vec!["a".into()],
    }
}

fn cmp_opt(name: &str, got: Option<Vec<u8>>, exp: Option<RVal>, acc: &mut Acc, d: &SDoc, arg: &str) {
    acc.eval();
    let ok = match (&got, &exp) {
        (None, None) => true,
        (Some(g), Some(e)) => *g == enc(e),
        _ => false,
    };
    if !ok {
        acc.vio(&format!("scale:{}:wrong-result", name), || json!({"doc": d.name, "arg": arg, "got_len": got.as_ref().map(|g| g.len()), "expected_len": exp.as_ref().map(|e| enc(e).len())}));
    }
}

/// C01 / C03 / C19 style whole-document checks
pub fn whole_doc(d: &SDoc, acc: &mut Acc) {
    acc.nontrivial += 1;
    let val = to_value(&d.val);
    match guard(|| (val.to_vec(), jsonb::parse_jsonb(&d.bytes).map(|x| (from_value_raw(&x) == d.val, x.to_vec())))) {
        Err(p) => acc.vio(&format!("scale:codec:{}", panic_class(&p)), || json!({"doc": d.name})),
        Ok((e, dec)) => {
            acc.evals(2);
            if e != d.bytes {
                acc.vio("scale:encode:layout-differs-from-README-encoder", || json!({"doc": d.name, "len": e.len(), "expected_len": d.bytes.len()}));
            }
            match dec {
                Ok((same, re)) if same && re == d.bytes => {}
                other => acc.vio("scale:decode:does-not-round-trip", || json!({"doc": d.name, "result": format!("{:?}", other.map(|(s, r)| (s, r.len())))})),
            }
        }
    }
    match strict_dec(&d.bytes) {
        Ok(v) if v == d.val => {}
        _ => acc.vio("MODEL-SELFTEST:scale-strict_dec", || json!({"doc": d.name})),
    }
}

pub fn render_doc(d: &SDoc, acc: &mut Acc) {
    acc.nontrivial += 1;
    match guard(|| (jsonb::to_string(&d.bytes), jsonb::to_pretty_string(&d.bytes))) {
        Err(p) => acc.vio(&format!("scale:render:{}", panic_class(&p)), || json!({"doc": d.name})),
        Ok((c, p)) => {
            for (n, t) in [("to_string", &c), ("to_pretty_string", &p)] {
                acc.eval();
                match refmodel::text::strict_json(t.as_bytes()) {
                    Ok(v) if v.json_eq(&d.val) => {}
                    _ => acc.vio(&format!("scale:{}:not-the-same-document", n), || json!({"doc": d.name, "text_len": t.len()})),
                }
            }
            match guard(|| jsonb::parse_value(c.as_bytes()).map(|x| x.to_vec())) {
                Ok(Ok(b)) if b == d.bytes => {}
                _ => acc.vio("scale:to_string:parse_value-does-not-reencode-identically", || json!({"doc": d.name})),
            }
            if refmodel::text::strip_insignificant_ws(&p) != c {
                acc.vio("scale:pretty:differs-from-compact-beyond-whitespace", || json!({"doc": d.name}));
            }
            // two-space indentation, one member per line, at every depth and size
            if let Some(t) = crate::checks::c03::tokens(&c) {
                if crate::checks::c03::collapse_empty(&p) != crate::checks::c03::pretty_from_tokens(&t) {
                    acc.vio("scale:pretty:layout-not-two-space-one-member-per-line", || json!({"doc": d.name}));
                }
            }
        }
    }
}

pub fn serde_doc(d: &SDoc, acc: &mut Acc) {
    acc.nontrivial += 1;
    acc.eval();
    match guard(|| jsonb::to_serde_json(&d.bytes).map(|s| (from_serde(&s), from_value(&jsonb::Value::from(&s))))) {
        Ok(Ok((a, b))) if a == d.val && b == d.val => {}
        other => acc.vio("scale:to_serde_json:differs", || json!({"doc": d.name, "ok": other.is_ok()})),
    }
}

/// C05: accessors with boundary arguments
pub fn accessors(d: &SDoc, acc: &mut Acc) {
    acc.nontrivial += 1;
    let (v, b) = (&d.val, &d.bytes);
    let r = guard(|| {
        let mut a = Acc::default();
        let n = ops::array_length(v).unwrap_or(0);
        if jsonb::array_length(b) != ops::array_length(v) {
            a.vio("scale:array_length:wrong", || json!({"doc": d.name}));
        }
        for i in idxs(n) {
            cmp_opt("get_by_index", jsonb::get_by_index(b, i), ops::get_by_index(v, i), &mut a, d, &i.to_string());
            let kp = vec![KP::Index(i as i32)];
            let kpi: Vec<_> = kp.iter().map(to_keypath).collect();
            cmp_opt("get_by_keypath", jsonb::get_by_keypath(b, kpi.iter()), ops::get_by_keypath(v, &kp), &mut a, d, &format!("{:?}", kp));
            let kp = vec![KP::Index(-(i as i32) - 1)];
            let kpi: Vec<_> = kp.iter().map(to_keypath).collect();
            cmp_opt("get_by_keypath", jsonb::get_by_keypath(b, kpi.iter()), ops::get_by_keypath(v, &kp), &mut a, d, &format!("{:?}", kp));
        }
        for k in keys_of(v) {
            for ic in [false, true] {
                cmp_opt("get_by_name", jsonb::get_by_name(b, &k, ic), ops::get_by_name(v, &k, ic), &mut a, d, &k);
            }
            let kp = vec![KP::Name(k.clone())];
            let kpi: Vec<_> = kp.iter().map(to_keypath).collect();
            cmp_opt("get_by_keypath", jsonb::get_by_keypath(b, kpi.iter()), ops::get_by_keypath(v, &kp), &mut a, d, &format!("{:?}", kp));
            let ks = [k.as_bytes()];
            a.eval();
            if jsonb::exists_all_keys(b, ks.iter().copied()) != ops::exists_key(v, &k) || jsonb::exists_any_keys(b, ks.iter().copied()) != ops::exists_key(v, &k) {
                a.vio("scale:exists_keys:wrong", || json!({"doc": d.name, "key_len": k.len()}));
            }
        }
        // two-step key paths into nested big containers
        if let RVal::Arr(items) = v {
            for (i, it) in items.iter().enumerate().take(3) {
                let m = ops::array_length(it).unwrap_or(0);
                for j in idxs(m).into_iter().take(8) {
                    let kp = vec![KP::Index(i as i32), KP::Index(j as i32)];
                    let kpi: Vec<_> = kp.iter().map(to_keypath).collect();
                    cmp_opt("get_by_keypath", jsonb::get_by_keypath(b, kpi.iter()), ops::get_by_keypath(v, &kp), &mut a, d, &format!("{:?}", kp));
                }
                for k in keys_of(it).into_iter().take(6) {
                    let kp = vec![KP::Index(i as i32), KP::Name(k)];
                    let kpi: Vec<_> = kp.iter().map(to_keypath).collect();
                    cmp_opt("get_by_keypath", jsonb::get_by_keypath(b, kpi.iter()), ops::get_by_keypath(v, &kp), &mut a, d, &format!("{:?}", kp));
                }
            }
        }
        cmp_opt("object_keys", jsonb::object_keys(b), ops::object_keys(v), &mut a, d, "");
        a.eval();
        match (jsonb::array_values(b), ops::array_values(v)) {
            (None, None) => {}
            (Some(g), Some(e)) if g.len() == e.len() && g.iter().zip(&e).all(|(x, y)| *x == enc(y)) => {}
            _ => a.vio("scale:array_values:wrong", || json!({"doc": d.name})),
        }
        a.eval();
        match (jsonb::object_each(b), ops::object_each(v)) {
            (None, None) => {}
            (Some(g), Some(e)) if g.len() == e.len() && g.iter().zip(&e).all(|((gk, gv), (ek, ev))| gk == ek.as_bytes() && *gv == enc(ev)) => {}
            _ => a.vio("scale:object_each:wrong", || json!({"doc": d.name})),
        }
        a.eval();
        if jsonb::type_of(b).ok() != Some(ops::type_of(v)) || jsonb::as_str(b).map(|s| s.len()) != (if let RVal::Str(s) = v { Some(s.len()) } else { None }) {
            a.vio("scale:type_of/as_str:wrong", || json!({"doc": d.name}));
        }
        let mut strs = vec![];
        v.all_strings(&mut strs);
        let cnt = std::cell::Cell::new(0usize);
        let total = std::cell::Cell::new(0usize);
        a.eval();
        let r = jsonb::traverse_check_string(b, |s| {
            cnt.set(cnt.get() + 1);
            total.set(total.get() + s.len());
            false
        });
        if r || cnt.get() != strs.len() || total.get() != strs.iter().map(|s| s.len()).sum::<usize>() {
            a.vio("scale:traverse_check_string:wrong", || json!({"doc": d.name, "visited": cnt.get(), "expected": strs.len()}));
        }
        a
    });
    match r {
        Ok(a) => acc.merge(a),
        Err(p) => acc.vio(&format!("scale:accessors:{}", panic_class(&p)), || json!({"doc": d.name})),
    }
}

fn edit(name: &str, f: impl FnOnce(&mut Vec<u8>) -> Result<(), jsonb::Error>, exp: Result<RVal, ops::EditErr>, acc: &mut Acc, d: &SDoc, arg: &str) {
    acc.eval();
    let mut buf = vec![0xAA, 0xBB, 0xCC];
    match guard(|| f(&mut buf)) {
        Err(p) => acc.vio(&format!("scale:{}:{}", name, panic_class(&p)), || json!({"doc": d.name, "arg": arg})),
        Ok(r) => match (r, exp) {
            (Ok(()), Ok(e)) => {
                let want = enc(&e);
                if buf.len() < 3 || buf[..3] != [0xAA, 0xBB, 0xCC] {
                    acc.vio(&format!("scale:{}:prior-bytes-modified", name), || json!({"doc": d.name, "arg": arg}));
                } else if buf[3..] != want[..] {
                    let canon = strict_dec(&buf[3..]);
                    acc.vio(&format!("scale:{}:wrong-document", name), || json!({"doc": d.name, "arg": arg, "got_len": buf.len() - 3, "expected_len": want.len(), "canonical": canon.is_ok()}));
                }
            }
            (Err(_), Err(_)) => {}
            (r, e) => acc.vio(&format!("scale:{}:outcome-differs", name), || json!({"doc": d.name, "arg": arg, "got_ok": r.is_ok(), "expected_ok": e.is_ok()})),
        },
    }
}

/// C06 / C17: editors with boundary arguments, into a buffer that already holds 3 bytes
pub fn editors(d: &SDoc, small: &[(RVal, Vec<u8>)], acc: &mut Acc) {
    acc.nontrivial += 1;
    let (v, b) = (&d.val, &d.bytes);
    let n = ops::array_length(v).unwrap_or(1);
    for i in idxs(n) {
        let i = i as i32;
        for pos in [i, -i - 1] {
            edit("delete_by_index", |buf| jsonb::delete_by_index(b, pos, buf), ops::delete_by_index(v, pos), acc, d, &pos.to_string());
            edit("array_insert", |buf| jsonb::array_insert(b, pos, &small[1].1, buf), Ok(ops::array_insert(v, pos, &small[1].0)), acc, d, &pos.to_string());
            let kp = vec![KP::Index(pos)];
            let kpi: Vec<_> = kp.iter().map(to_keypath).collect();
            edit("delete_by_keypath", |buf| jsonb::delete_by_keypath(b, kpi.iter(), buf), ops::delete_by_keypath(v, &kp), acc, d, &format!("{:?}", kp));
        }
    }
    for k in keys_of(v) {
        edit("delete_by_name", |buf| jsonb::delete_by_name(b, &k, buf), ops::delete_by_name(v, &k), acc, d, &k);
        for flag in [false, true] {
            edit("object_insert", |buf| jsonb::object_insert(b, &k, &small[2].1, flag, buf), ops::object_insert(v, &k, &small[2].0, flag), acc, d, &k);
        }
        let ks: std::collections::BTreeSet<String> = [k.clone()].into_iter().collect();
        let kr: std::collections::BTreeSet<&str> = ks.iter().map(|s| s.as_str()).collect();
        edit("object_delete", |buf| jsonb::object_delete(b, &kr, buf), ops::object_delete(v, &ks), acc, d, &k);
        edit("object_pick", |buf| jsonb::object_pick(b, &kr, buf), ops::object_pick(v, &ks), acc, d, &k);
        let kp = vec![KP::Name(k.clone())];
        let kpi: Vec<_> = kp.iter().map(to_keypath).collect();
        edit("delete_by_keypath", |buf| jsonb::delete_by_keypath(b, kpi.iter(), buf), ops::delete_by_keypath(v, &kp), acc, d, &format!("{:?}", kp));
    }
    if let RVal::Arr(items) = v {
        for (i, it) in items.iter().enumerate().take(3) {
            let m = ops::array_length(it).unwrap_or(0);
            for j in [0usize, m / 2, m.saturating_sub(1), 255, 256] {
                let kp = vec![KP::Index(i as i32), KP::Index(j as i32)];
                let kpi: Vec<_> = kp.iter().map(to_keypath).collect();
                edit("delete_by_keypath", |buf| jsonb::delete_by_keypath(b, kpi.iter(), buf), ops::delete_by_keypath(v, &kp), acc, d, &format!("{:?}", kp));
            }
        }
    }
    edit("strip_nulls", |buf| jsonb::strip_nulls(b, buf), Ok(ops::strip_nulls(v)), acc, d, "");
    edit("array_distinct", |buf| jsonb::array_distinct(b, buf), Ok(ops::array_distinct(v)), acc, d, "");
    for (q, qb) in small.iter() {
        edit("concat(s,q)", |buf| jsonb::concat(b, qb, buf), Ok(ops::concat(v, q)), acc, d, &format!("{:?}", q));
        edit("concat(q,s)", |buf| jsonb::concat(qb, b, buf), Ok(ops::concat(q, v)), acc, d, &format!("{:?}", q));
        edit("array_except", |buf| jsonb::array_except(b, qb, buf), Ok(ops::array_except(v, q)), acc, d, &format!("{:?}", q));
        edit("array_intersection", |buf| jsonb::array_intersection(b, qb, buf), Ok(ops::array_intersection(v, q)), acc, d, &format!("{:?}", q));
        edit("build_array", |buf| jsonb::build_array([&b[..], &qb[..], &b[..]], buf), Ok(ops::build_array(&[v.clone(), q.clone(), v.clone()])), acc, d, "");
        edit("build_object", |buf| jsonb::build_object([("b", &b[..]), ("a", &qb[..])], buf), Ok(ops::build_object(&[("b".to_string(), v.clone()), ("a".to_string(), q.clone())])), acc, d, "");
    }
    edit("concat(s,s)", |buf| jsonb::concat(b, b, buf), Ok(ops::concat(v, v)), acc, d, "");
}

pub fn small_pool() -> Vec<(RVal, Vec<u8>)> {
    [RVal::Null, RVal::u(300), RVal::s("new"), RVal::arr(vec![RVal::u(0), RVal::u(255)]), RVal::obj(vec![("k00001", RVal::Null), ("zz", RVal::u(1))])].into_iter().map(|v| { let b = enc(&v); (v, b) }).collect()
}

// ---------------------------------------------------------------------------------------------
// relations at scale (C04 / C12 / C14): pairs among the scale documents and near-copies of them

pub fn variants() -> &'static Arc<Vec<SDoc>> {
    static D: OnceLock<Arc<Vec<SDoc>>> = OnceLock::new();
    D.get_or_init(|| {
        let mut v: Vec<(String, RVal)> = vec![];
        for d in docs().iter() {
            if d.bytes.len() > 700_000 {
                continue;
            }
            v.push((d.name.clone(), d.val.clone()));
            // a copy that differs only in the LAST child / last character
            let near = match &d.val {
                RVal::Arr(a) if !a.is_empty() => {
                    let mut b = a.clone();
                    let n = b.len();
                    b[n - 1] = RVal::s("different");
                    Some(RVal::Arr(b))
                }
                RVal::Obj(o) if !o.is_empty() => {
                    let mut b = o.clone();
                    let k = b.keys().last().unwrap().clone();
                    b.insert(k, RVal::s("different"));
                    Some(RVal::Obj(b))
                }
                RVal::Str(s) => {
                    let mut t = s.clone();
                    t.pop();
                    t.push('y');
                    Some(RVal::Str(t))
                }
                _ => None,
            };
            if let Some(n) = near {
                v.push((format!("{} (last child changed)", d.name), n));
            }
            // a proper prefix (one child fewer)
            match &d.val {
                RVal::Arr(a) if a.len() > 1 => {
                    let mut b = a.clone();
                    b.pop();
                    v.push((format!("{} (one element fewer)", d.name), RVal::Arr(b)));
                }
                RVal::Obj(o) if o.len() > 1 => {
                    let mut b = o.clone();
                    let k = b.keys().last().unwrap().clone();
                    b.remove(&k);
                    v.push((format!("{} (one member fewer)", d.name), RVal::Obj(b)));
                }
                _ => {}
            }
        }
        Arc::new(v.into_iter().map(|(name, val)| { let bytes = enc(&val); SDoc { name, val, bytes } }).collect())
    })
}

pub fn relation_row(i: usize, acc: &mut Acc, what: u8) {
    let vs = variants();
    let a = &vs[i];
    for b in vs.iter() {
        acc.eval();
        acc.nontrivial += 1;
        let ctx = || json!({"a": a.name, "b": b.name});
        match what {
            0 => {
                let exp = ops::ref_cmp(&a.val, &b.val);
                match guard(|| jsonb::compare(&a.bytes, &b.bytes)) {
                    Ok(Ok(o)) if o == exp => {}
                    other => acc.vio("scale:compare:differs-from-documented-order", || json!({"ctx": ctx(), "expected": format!("{:?}", exp), "observed": format!("{:?}", other)})),
                }
            }
            1 => {
                // containment on huge containers is quadratic (model and implementation): keep to <= 1,000 children
                fn sz(v: &RVal) -> usize {
                    match v {
                        RVal::Arr(x) => x.len().max(x.iter().map(sz).max().unwrap_or(0)),
                        RVal::Obj(x) => x.len().max(x.values().map(sz).max().unwrap_or(0)),
                        _ => 1,
                    }
                }
                if sz(&a.val) > 1000 || sz(&b.val) > 1000 {
                    acc.evaluations -= 1;
                    acc.nontrivial -= 1;
                    continue;
                }
                let exp = ops::ref_contains(&a.val, &b.val);
                match guard(|| jsonb::contains(&a.bytes, &b.bytes)) {
                    Ok(o) if o == exp => {}
                    other => acc.vio("scale:contains:differs-from-rules", || json!({"ctx": ctx(), "expected": exp, "observed": format!("{:?}", other)})),
                }
            }
            _ => {
                let r = guard(|| {
                    let (mut ka, mut kb) = (vec![], vec![]);
                    jsonb::convert_to_comparable(&a.bytes, &mut ka);
                    jsonb::convert_to_comparable(&b.bytes, &mut kb);
                    (ka.cmp(&kb), jsonb::compare(&a.bytes, &b.bytes))
                });
                match r {
                    Ok((ko, Ok(c))) if ko == c => {}
                    other => acc.vio("scale:key-order!=compare", || json!({"ctx": ctx(), "observed": format!("{:?}", other)})),
                }
            }
        }
    }
}

// ---------------------------------------------------------------------------------------------
// JSONPath at scale (C08)

pub fn path_menu() -> Vec<refmodel::jpath::JPath> {
    use refmodel::jpath::*;
    let n = |i: i32| AIdx::One(Idx::N(i));
    let cur = || Expr::Paths(vec![Step::Current]);
    let num = |x: u64| Expr::Lit(Lit::Num(refmodel::RNum::U(x)));
    let mut v = vec![];
    for ix in [vec![AIdx::One(Idx::Last(0))], vec![n(255)], vec![n(256)], vec![n(65535)], vec![n(65536)], vec![AIdx::Slice(Idx::N(0), Idx::Last(0))], vec![AIdx::Slice(Idx::N(254), Idx::N(257))], vec![AIdx::Slice(Idx::Last(-1), Idx::Last(5))], vec![n(256), n(0), AIdx::One(Idx::Last(0))]] {
        v.push(JPath(vec![Step::Root, Step::Indices(ix.clone())]));
        v.push(JPath(vec![Step::Root, Step::Dot("big".into()), Step::Indices(ix.clone())]));
        v.push(JPath(vec![Step::Root, Step::Indices(vec![n(0)]), Step::Indices(ix)]));
    }
    for k in ["k00000", "k00255", "k00256", "k04095", "a", "b", "c", "z", "big"] {
        v.push(JPath(vec![Step::Root, Step::Dot(k.into())]));
        v.push(JPath(vec![Step::Root, Step::Indices(vec![n(1)]), Step::ObjField(k.into())]));
    }
    v.push(JPath(vec![Step::Root, Step::BracketWild]));
    v.push(JPath(vec![Step::Root, Step::DotWild]));
    v.push(JPath(vec![Step::Root, Step::BracketWild, Step::BracketWild]));
    for (c, x) in [(Cmp::Eq, 255u64), (Cmp::Gt, 65533), (Cmp::Le, 1)] {
        v.push(JPath(vec![Step::Root, Step::BracketWild, Step::Filter(Box::new(Expr::Cmp(c, Box::new(cur()), Box::new(num(x)))))]));
        v.push(JPath(vec![Step::Root, Step::DotWild, Step::Filter(Box::new(Expr::Cmp(c, Box::new(cur()), Box::new(num(x)))))]));
    }
    v.push(JPath(vec![Step::Predicate(Box::new(Expr::Cmp(Cmp::Eq, Box::new(Expr::Paths(vec![Step::Root, Step::Indices(vec![AIdx::One(Idx::Last(0))])])), Box::new(num(65535))))) ]));
    v
}

// ---------------------------------------------------------------------------------------------
// wide (4-6 siblings) and deep (4-6 levels) families with boundary-focused arguments

pub fn wide_deep_doc(v: &RVal, acc: &mut Acc, what: u8) {
    let d = SDoc { name: format!("{:?}", v), val: v.clone(), bytes: enc(v) };
    match what {
        0 => whole_doc(&d, acc),
        1 => render_doc(&d, acc),
        2 => {
            accessors(&d, acc);
            // the spine and every prefix of it, with one wrong step at each position
            let sp = refmodel::gen::spine(v);
            for cut in 0..=sp.len() {
                let kp: Vec<KP> = sp[..cut].to_vec();
                let kpi: Vec<_> = kp.iter().map(to_keypath).collect();
                cmp_opt("get_by_keypath", guard(|| jsonb::get_by_keypath(&d.bytes, kpi.iter())).unwrap_or(None), ops::get_by_keypath(v, &kp), acc, &d, &format!("{:?}", kp));
                if cut < sp.len() {
                    for wrong in [KP::Index(7), KP::Name("nope".into()), KP::Index(-1)] {
                        let mut kp2 = kp.clone();
                        kp2.push(wrong);
                        let kpi: Vec<_> = kp2.iter().map(to_keypath).collect();
                        cmp_opt("get_by_keypath", guard(|| jsonb::get_by_keypath(&d.bytes, kpi.iter())).unwrap_or(None), ops::get_by_keypath(v, &kp2), acc, &d, &format!("{:?}", kp2));
                    }
                }
            }
        }
        3 => {
            editors(&d, &small_pool(), acc);
            let sp = refmodel::gen::spine(v);
            for cut in 1..=sp.len() {
                let kp: Vec<KP> = sp[..cut].to_vec();
                let kpi: Vec<_> = kp.iter().map(to_keypath).collect();
                edit("delete_by_keypath", |buf| jsonb::delete_by_keypath(&d.bytes, kpi.iter(), buf), ops::delete_by_keypath(v, &kp), acc, &d, &format!("{:?}", kp));
            }
        }
        _ => serde_doc(&d, acc),
    }
}

// ---------------------------------------------------------------------------------------------
// SIZE SWEEP and DEPTH SWEEP: exhaustive in ONE dimension.  Thresholds introduced by "fast paths"
// (sort-stability cut-offs at 21 / 33 elements, bisection above 64 / 256 keys, ring buffers that
// wrap at 100 / 200 / 400 items, recursion guards at 64 / 128 levels, 16-bit counters) sit at
// arbitrary sizes; instead of guessing them, every size 0..=limit and every depth 1..=limit is
// visited, plus 2^k-1, 2^k, 2^k+1 up to 2^17.

pub fn sizes(tier: Tier) -> Vec<usize> {
    let lim = if tier.thorough() { 4200 } else { 1100 };
    let mut v: Vec<usize> = (0..=lim).collect();
    for k in 10..=17u32 {
        for d in [-1i64, 0, 1] {
            v.push(((1i64 << k) + d) as usize);
        }
    }
    v.push(32769);
    v.push(70000);
    v.sort();
    v.dedup();
    v
}

/// for operations that are linear per call and called ~100 times per document (editors), or
/// quadratic (filters comparing with a path operand): every N up to the limit, then only a few
/// boundaries
pub fn sizes_heavy(tier: Tier) -> Vec<usize> {
    let lim = if tier.thorough() { 2100 } else { 600 };
    let mut v: Vec<usize> = (0..=lim).collect();
    v.extend([1023, 1024, 1025, 4095, 4096, 4097]);
    if tier.thorough() {
        v.extend([32769, 65535, 65536, 65537]);
    }
    v.sort();
    v.dedup();
    v
}

/// the five size-N families
pub fn sized(family: u8, n: usize) -> RVal {
    match family {
        0 => RVal::Arr((0..n).map(|i| RVal::u(i as u64)).collect()),
        1 => RVal::Obj((0..n).map(|i| (format!("k{}", i), RVal::u(i as u64))).collect()),
        2 => RVal::Arr((0..n).map(|j| if j % 3 == 0 { RVal::f((j % 7) as f64) } else if j % 5 == 0 { RVal::s("dup") } else { RVal::u((j % 7) as u64) }).collect()),
        3 => RVal::Str("s".repeat(n)),
        _ => RVal::Arr((0..n).map(|i| if i % 2 == 0 { RVal::arr(vec![]) } else { RVal::obj(vec![("a", RVal::Null)]) }).collect()),
    }
}

pub const N_FAMILIES: u64 = 5;

pub fn sized_doc(family: u8, n: usize) -> SDoc {
    let val = sized(family, n);
    let bytes = enc(&val);
    SDoc { name: format!("size-family {} with N={}", family, n), val, bytes }
}

/// relations on size-N documents (what = 0 compare, 1 contains, 2 key-vs-compare)
pub fn sized_relations(n: usize, acc: &mut Acc, what: u8) {
    // A_N (unsigned) against the same numbers as floats, with the last one changed, one fewer
    let a = RVal::Arr((0..n).map(|i| RVal::u(i as u64)).collect());
    let f = RVal::Arr((0..n).map(|i| RVal::f(i as f64)).collect());
    let mut l = (0..n).map(|i| RVal::u(i as u64)).collect::<Vec<_>>();
    if let Some(x) = l.last_mut() {
        *x = RVal::u(1 << 40);
    }
    let l = RVal::Arr(l);
    let s = RVal::Arr((0..n.saturating_sub(1)).map(|i| RVal::f(i as f64)).collect());
    let o = RVal::Obj((0..n).map(|i| (format!("k{}", i), RVal::u(i as u64))).collect());
    let of = RVal::Obj((0..n).map(|i| (format!("k{}", i), RVal::f(i as f64))).collect());
    let docs: Vec<(RVal, Vec<u8>)> = [a, f, l, s, o, of].into_iter().map(|v| { let b = enc(&v); (v, b) }).collect();
    if what == 1 && n > 1500 {
        return; // containment is quadratic
    }
    for (x, xb) in &docs {
        for (y, yb) in &docs {
            acc.eval();
            acc.nontrivial += 1;
            let ctx = || json!({"N": n, "a": format!("{:.60}", format!("{:?}", x)), "b": format!("{:.60}", format!("{:?}", y))});
            match what {
                0 => {
                    let exp = ops::ref_cmp(x, y);
                    match guard(|| jsonb::compare(xb, yb)) {
                        Ok(Ok(c)) if c == exp => {}
                        other => acc.vio("size:compare:differs-from-documented-order", || json!({"ctx": ctx(), "expected": format!("{:?}", exp), "observed": format!("{:?}", other)})),
                    }
                }
                1 => {
                    let exp = ops::ref_contains(x, y);
                    match guard(|| jsonb::contains(xb, yb)) {
                        Ok(c) if c == exp => {}
                        other => acc.vio("size:contains:differs-from-rules", || json!({"ctx": ctx(), "expected": exp, "observed": format!("{:?}", other)})),
                    }
                }
                _ => {
                    let r = guard(|| {
                        let (mut ka, mut kb) = (vec![], vec![]);
                        jsonb::convert_to_comparable(xb, &mut ka);
                        jsonb::convert_to_comparable(yb, &mut kb);
                        (ka.cmp(&kb), jsonb::compare(xb, yb))
                    });
                    match r {
                        Ok((ko, Ok(c))) if ko == c => {}
                        other => acc.vio("size:key-order!=compare", || json!({"ctx": ctx(), "observed": format!("{:?}", other)})),
                    }
                }
            }
        }
    }
}

/// JSONPath on size-N documents, through all four modes and the entry points (C08 + C15)
pub fn sized_paths(n: usize, acc: &mut Acc, modes: bool) {
    use refmodel::jpath::*;
    let cur = || Expr::Paths(vec![Step::Current]);
    let num = |x: u64| Expr::Lit(Lit::Num(refmodel::RNum::U(x)));
    let mid = n / 2;
    let paths: Vec<JPath> = vec![
        JPath(vec![Step::Root, Step::BracketWild]),
        JPath(vec![Step::Root, Step::DotWild]),
        JPath(vec![Step::Root, Step::Indices(vec![AIdx::One(Idx::Last(0))])]),
        JPath(vec![Step::Root, Step::Indices(vec![AIdx::Slice(Idx::N(0), Idx::Last(0))])]),
        JPath(vec![Step::Root, Step::Indices(vec![AIdx::One(Idx::N(mid as i32)), AIdx::One(Idx::N(0)), AIdx::One(Idx::Last(0))])]),
        JPath(vec![Step::Root, Step::Dot(format!("k{}", n.saturating_sub(1)))]),
        JPath(vec![Step::Root, Step::Dot(format!("k{}", mid))]),
        JPath(vec![Step::Root, Step::Dot("k0".into())]),
        JPath(vec![Step::Root, Step::Dot("k9".into())]),
        JPath(vec![Step::Root, Step::Dot("k10".into())]),
        JPath(vec![Step::Root, Step::BracketWild, Step::Filter(Box::new(Expr::Cmp(Cmp::Ge, Box::new(cur()), Box::new(num(mid as u64)))))]),
        JPath(vec![Step::Root, Step::DotWild, Step::Filter(Box::new(Expr::Cmp(Cmp::Lt, Box::new(cur()), Box::new(num(3)))))]),
        JPath(vec![Step::Root, Step::BracketWild, Step::Filter(Box::new(Expr::Cmp(Cmp::Eq, Box::new(cur()), Box::new(Expr::Paths(vec![Step::Root, Step::Indices(vec![AIdx::One(Idx::Last(0))])])))))]),
    ];
    for fam in [0u8, 1, 2, 4] {
        let d = sized_doc(fam, n);
        for p in &paths {
            let ip = crate::pathconv::to_impl_path(p);
            if modes {
                crate::checks::c15::judge(p, &ip, &d.val, &d.bytes, acc);
            } else {
                crate::checks::c08::judge(p, &ip, &d.val, &d.bytes, acc);
            }
        }
    }
}

/// chains of depth N (3 shapes) with a container bottom, for the depth sweep
pub fn depth_docs(n: usize) -> Vec<SDoc> {
    let mut out = vec![];
    for shape in 0..3u8 {
        for (tag, bottom) in [("[1,\"a\"]", RVal::arr(vec![RVal::u(1), RVal::s("a")])), ("[1.0,\"a\"]", RVal::arr(vec![RVal::f(1.0), RVal::s("a")])), ("{\"x\":1,\"y\":[1,2,3]}", RVal::obj(vec![("x", RVal::u(1)), ("y", RVal::arr(vec![RVal::u(1), RVal::u(2), RVal::u(3)]))])), ("{\"x\":1}", RVal::obj(vec![("x", RVal::u(1))])), ("[2,0]", RVal::arr(vec![RVal::u(2), RVal::u(0)])), ("[10]", RVal::arr(vec![RVal::u(10)])), ("null", RVal::Null)] {
            let val = refmodel::gen::chain(n, shape, bottom);
            let bytes = enc(&val);
            out.push(SDoc { name: format!("depth {} shape {} bottom {}", n, shape, tag), val, bytes });
        }
    }
    out
}

pub fn depth_relations(n: usize, acc: &mut Acc, what: u8) {
    let ds = depth_docs(n);
    for a in &ds {
        for b in &ds {
            acc.eval();
            acc.nontrivial += 1;
            let ctx = || json!({"a": a.name, "b": b.name});
            match what {
                0 => {
                    let exp = ops::ref_cmp(&a.val, &b.val);
                    match guard(|| jsonb::compare(&a.bytes, &b.bytes)) {
                        Ok(Ok(c)) if c == exp => {}
                        other => acc.vio("depth:compare:differs-from-documented-order", || json!({"ctx": ctx(), "expected": format!("{:?}", exp), "observed": format!("{:?}", other)})),
                    }
                }
                1 => {
                    let exp = ops::ref_contains(&a.val, &b.val);
                    match guard(|| jsonb::contains(&a.bytes, &b.bytes)) {
                        Ok(c) if c == exp => {}
                        other => acc.vio("depth:contains:differs-from-rules", || json!({"ctx": ctx(), "expected": exp, "observed": format!("{:?}", other)})),
                    }
                }
                _ => {
                    let r = guard(|| {
                        let (mut ka, mut kb) = (vec![], vec![]);
                        jsonb::convert_to_comparable(&a.bytes, &mut ka);
                        jsonb::convert_to_comparable(&b.bytes, &mut kb);
                        (ka.cmp(&kb), jsonb::compare(&a.bytes, &b.bytes))
                    });
                    match r {
                        Ok((ko, Ok(c))) if ko == c => {}
                        other => acc.vio("depth:key-order!=compare", || json!({"ctx": ctx(), "observed": format!("{:?}", other)})),
                    }
                }
            }
        }
    }
}

/// per-document operations of a property on every depth-N chain
pub fn depth_ops(n: usize, acc: &mut Acc, what: u8) {
    for d in depth_docs(n).into_iter().step_by(2) {
        match what {
            0 => whole_doc(&d, acc),
            1 => render_doc(&d, acc),
            2 => {
                let sp = refmodel::gen::spine(&d.val);
                for cut in [0, 1, sp.len() / 2, sp.len().saturating_sub(1), sp.len()] {
                    let kp: Vec<KP> = sp[..cut.min(sp.len())].to_vec();
                    let kpi: Vec<_> = kp.iter().map(to_keypath).collect();
                    cmp_opt("get_by_keypath", guard(|| jsonb::get_by_keypath(&d.bytes, kpi.iter())).unwrap_or(None), ops::get_by_keypath(&d.val, &kp), acc, &d, &format!("spine[..{}]", cut));
                }
                let mut strs = vec![];
                d.val.all_strings(&mut strs);
                let cnt = std::cell::Cell::new(0usize);
                let _ = guard(|| jsonb::traverse_check_string(&d.bytes, |_| { cnt.set(cnt.get() + 1); false }));
                acc.eval();
                if cnt.get() != strs.len() {
                    acc.vio("depth:traverse_check_string:wrong", || json!({"doc": d.name}));
                }
            }
            3 => {
                let sp = refmodel::gen::spine(&d.val);
                for cut in [1, sp.len() / 2, sp.len().saturating_sub(1), sp.len()] {
                    if cut == 0 || cut > sp.len() {
                        continue;
                    }
                    let kp: Vec<KP> = sp[..cut].to_vec();
                    let kpi: Vec<_> = kp.iter().map(to_keypath).collect();
                    edit("delete_by_keypath", |buf| jsonb::delete_by_keypath(&d.bytes, kpi.iter(), buf), ops::delete_by_keypath(&d.val, &kp), acc, &d, &format!("spine[..{}]", cut));
                }
                edit("strip_nulls", |buf| jsonb::strip_nulls(&d.bytes, buf), Ok(ops::strip_nulls(&d.val)), acc, &d, "");
                edit("concat(s,s)", |buf| jsonb::concat(&d.bytes, &d.bytes, buf), Ok(ops::concat(&d.val, &d.val)), acc, &d, "");
            }
            _ => serde_doc(&d, acc),
        }
    }
}
