//! C12 — containment follows the PostgreSQL @> rules with compare's equality.
use crate::checks::c04::docs;
use crate::harness::*;
use crate::univ;
use refmodel::layout::{enc, hex};
use refmodel::ops::ref_contains;
use refmodel::RVal;
use serde_json::json;

pub fn spaces(tier: Tier) -> Vec<Space<'static>> {
    let base: &[RVal] = if tier.thorough() { univ::p5() } else { univ::d2() };
    let d = docs({
        let mut u = univ::containment_universe(base, if tier.thorough() { 5 } else { 4 });
        u.extend(refmodel::gen::strkey_docs());
        u.extend(refmodel::gen::tagv_relation_docs());
        let mut seen = std::collections::HashSet::new();
        u.retain(|x| seen.insert(x.clone()));
        u
    });
    let n = d.vals.len();
    let mut sp: Vec<Space> = vec![];
    let d1 = d.clone();
    sp.push(Space::new("all-pairs", n as u64, move |i, acc| {
        let i = i as usize;
        let d = &d1;
        for j in 0..n {
            acc.eval();
            let exp = ref_contains(&d.vals[i], &d.vals[j]);
            if d.vals[j].is_container() && i != j {
                acc.nontrivial += 1;
            }
            match guard(|| jsonb::contains(&d.bytes[i], &d.bytes[j])) {
                Err(p) => acc.vio(&format!("contains:{}", panic_class(&p)), || json!({"a": format!("{:?}", d.vals[i]), "b": format!("{:?}", d.vals[j])})),
                Ok(o) => {
                    acc.outcome(if o { "true" } else { "false" });
                    if o != exp {
                        let class = if exp { "contains:false-but-rules-say-true" } else { "contains:true-but-rules-say-false" };
                        acc.vio(class, || json!({"a": format!("{:?}", d.vals[i]), "b": format!("{:?}", d.vals[j]), "a_hex": hex(&d.bytes[i]), "b_hex": hex(&d.bytes[j]), "expected": exp, "observed": o}));
                    }
                }
            }
        }
        acc.sample(|| json!({"a": format!("{:?}", d.vals[i]), "b": format!("{:?}", d.vals[(i * 7 + 3) % n])}));
    }));
    // numbers of every representation and width class, the operands handed over both as the model's
    // bytes and as the bytes jsonb's own Value encoder writes for the tree
    {
        let mut nums: Vec<RVal> = univ::num_variants(false);
        for v in [128i64, 200, 255, 256, 32768, 40000, 65535, 65536, 2147483648, 3000000000, 4294967295, 4294967296] {
            nums.push(RVal::Num(refmodel::RNum::I(v)));
            nums.push(RVal::u(v as u64));
            nums.push(RVal::f(v as f64));
            nums.push(RVal::i(-v));
        }
        let mut docs: Vec<RVal> = vec![];
        for n in &nums {
            docs.push(n.clone());
            docs.push(RVal::Arr(vec![n.clone(), RVal::s("x")]));
            docs.push(RVal::obj(vec![("a", n.clone())]));
        }
        let forms: std::sync::Arc<Vec<(RVal, Vec<u8>, Vec<u8>)>> = std::sync::Arc::new(docs.into_iter().map(|d| { let own = guard(|| crate::conv::to_value(&d).to_vec()).unwrap_or_default(); let b = enc(&d); (d, b, own) }).collect());
        sp.push(Space::new("numbers of every representation and width class, operands as model bytes and as Value-encoder bytes", forms.len() as u64, move |i, acc| {
            let (a, ab, ao) = &forms[i as usize];
            for (b, bb, bo) in forms.iter() {
                let exp = ref_contains(a, b);
                for (cfg, x, y) in [("model,encoder", &ab[..], &bo[..]), ("encoder,model", &ao[..], &bb[..]), ("encoder,encoder", &ao[..], &bo[..])] {
                    acc.eval();
                    match guard(|| jsonb::contains(x, y)) {
                        Ok(o) if o == exp => {}
                        other => acc.vio("contains:value-encoder-bytes:differs-from-rules", || json!({"cfg": cfg, "a": format!("{:?}", a), "b": format!("{:?}", b), "expected": exp, "observed": format!("{:?}", other.map_err(|p| panic_class(&p)))})),
                    }
                }
            }
        }));
    }
    // text operands in the other spellings (all \\uXXXX, short escapes incl. \\/, CRLF/TAB between
    // tokens) for the special-character-key family, and texts that repeat a member name
    {
        let fam: std::sync::Arc<Vec<RVal>> = std::sync::Arc::new(refmodel::gen::strkey_docs().into_iter().step_by(if tier.thorough() { 2 } else { 5 }).chain(univ::d2().iter().step_by(40).cloned()).collect());
        let m = fam.len();
        sp.push(Space::new("text operands in three other spellings (special-character keys)", m as u64, move |i, acc| {
            let a = &fam[i as usize];
            let ab = enc(a);
            for b in fam.iter() {
                let exp = ref_contains(a, b);
                let bb = enc(b);
                for style in [1u8, 2, 3] {
                    let (ta, tb) = (refmodel::text::print_styled(a, style), refmodel::text::print_styled(b, style));
                    for (cfg, x, y) in [("text,text", ta.as_bytes(), tb.as_bytes()), ("text,binary", ta.as_bytes(), &bb[..]), ("binary,text", &ab[..], tb.as_bytes())] {
                        acc.eval();
                        match guard(|| jsonb::contains(x, y)) {
                            Ok(o) if o == exp => {}
                            other => acc.vio("contains-text:other-spelling:differs-from-rules", || json!({"cfg": cfg, "style": style, "a": ta, "b": tb, "expected": exp, "observed": format!("{:?}", other.map_err(|p| panic_class(&p)))})),
                        }
                    }
                }
            }
        }));
        let raw: Vec<&str> = vec!["{\"a\":1,\"a\":2}", "{\"a\":2,\"a\":1}", "{\"a\":2}", "{\"a\":1}", "{\"a\":7,\"a\":2,\"b\":true}", "{\"a\":2,\"b\":true}", "[{\"a\":1,\"a\":2}]", "[{\"a\":2}]", "{\"a\":{\"k\":1,\"k\":[]}}", "{\"a\":{\"k\":[]}}", "{\"a\":{\"k\":1}}"];
        let items: std::sync::Arc<Vec<(String, RVal, Vec<u8>)>> = std::sync::Arc::new(raw.into_iter().map(|s| { let v = refmodel::text::relaxed_json(s.as_bytes()).expect("model parses").val; let b = enc(&v); (s.to_string(), v, b) }).collect());
        sp.push(Space::new("text operands with repeated member names", items.len() as u64, move |i, acc| {
            let (si, vi, bi) = &items[i as usize];
            for (sj, vj, bj) in items.iter() {
                let exp = ref_contains(vi, vj);
                for (cfg, x, y) in [("text,text", si.as_bytes(), sj.as_bytes()), ("text,binary", si.as_bytes(), &bj[..]), ("binary,text", &bi[..], sj.as_bytes())] {
                    acc.eval();
                    acc.nontrivial += 1;
                    match guard(|| jsonb::contains(x, y)) {
                        Ok(o) if o == exp => {}
                        other => acc.vio("contains-text:repeated-member-names:differs-from-rules", || json!({"cfg": cfg, "a": si, "b": sj, "expected": exp, "observed": format!("{:?}", other.map_err(|p| panic_class(&p)))})),
                    }
                }
            }
        }));
    }
    // "Equality of scalars is the equality that compare reports": for every pair of scalar documents and
    // every text/binary configuration, contains(a, b) is true exactly when compare(a, b) says Equal
    {
        let mut sc: Vec<RVal> = univ::num_variants(false);
        for v in [128i64, 255, 256, 65535, 65536, 2147483648, 4294967295, 4294967296, 9007199254740993] {
            sc.push(RVal::Num(refmodel::RNum::I(v)));
            sc.push(RVal::u(v as u64));
            sc.push(RVal::f(v as f64));
            sc.push(RVal::i(-v));
        }
        sc.extend([RVal::Null, RVal::Bool(true), RVal::Bool(false), RVal::s(""), RVal::s("a"), RVal::s("A"), RVal::s("k"), RVal::s("null"), RVal::s("1"), RVal::s("\u{e9}")]);
        let forms: std::sync::Arc<Vec<(RVal, Vec<u8>, Option<String>)>> = std::sync::Arc::new(sc.into_iter().map(|d| { let b = enc(&d); let t = if d.all_finite() { Some(refmodel::text::print(&d)) } else { None }; (d, b, t) }).collect());
        sp.push(Space::new("scalar pairs: contains is true exactly when compare reports Equal (four text/binary configurations)", forms.len() as u64, move |i, acc| {
            let (a, ab, at) = &forms[i as usize];
            for (b, bb, bt) in forms.iter() {
                let mut cfgs: Vec<(&str, &[u8], &[u8])> = vec![("binary,binary", &ab[..], &bb[..])];
                if let Some(tb) = bt {
                    cfgs.push(("binary,text", &ab[..], tb.as_bytes()));
                }
                if let Some(ta) = at {
                    cfgs.push(("text,binary", ta.as_bytes(), &bb[..]));
                    if let Some(tb) = bt {
                        cfgs.push(("text,text", ta.as_bytes(), tb.as_bytes()));
                    }
                }
                for (cfg, x, y) in cfgs {
                    acc.eval();
                    match guard(|| (jsonb::contains(x, y), jsonb::compare(x, y))) {
                        Ok((c, Ok(o))) if c == (o == std::cmp::Ordering::Equal) => {}
                        other => acc.vio("contains-vs-compare:scalars:equality-differs", || json!({"cfg": cfg, "a": format!("{:?}", a), "b": format!("{:?}", b), "observed (contains, compare)": format!("{:?}", other.map_err(|p| panic_class(&p)))})),
                    }
                }
            }
        }));
    }
    // documents holding NaN or an infinity (only writable as JSONB) against finite documents given as text
    // and as JSONB: the tree implementation has to decode them
    {
        let nf = [f64::NAN, f64::INFINITY, f64::NEG_INFINITY];
        let mut a_docs: Vec<RVal> = vec![];
        for x in nf {
            let n = RVal::f(x);
            a_docs.extend([n.clone(), RVal::arr(vec![RVal::u(1), n.clone(), RVal::s("x")]), RVal::obj(vec![("a", n.clone()), ("b", RVal::u(2))]), RVal::arr(vec![RVal::arr(vec![n.clone()]), RVal::u(1)]), RVal::obj(vec![("k", RVal::arr(vec![n.clone(), RVal::u(1)]))])]);
        }
        let b_docs: Vec<RVal> = vec![RVal::u(1), RVal::f(1.0), RVal::s("x"), RVal::arr(vec![RVal::u(1)]), RVal::arr(vec![RVal::s("x"), RVal::u(1)]), RVal::obj(vec![("b", RVal::u(2))]), RVal::obj(vec![("a", RVal::u(1))]), RVal::arr(vec![RVal::arr(vec![])]), RVal::arr(vec![]), RVal::obj(vec![]), RVal::obj(vec![("k", RVal::arr(vec![RVal::u(1)]))]), RVal::Null];
        let (a_docs, b_docs) = (std::sync::Arc::new(a_docs), std::sync::Arc::new(b_docs));
        sp.push(Space::new("documents with NaN / infinities (JSONB) against finite documents as text and as JSONB, both directions", a_docs.len() as u64, move |i, acc| {
            let a = &a_docs[i as usize];
            let ab = enc(a);
            for b in b_docs.iter() {
                let (bb, bt) = (enc(b), refmodel::text::print(b));
                for (cfg, x, y, exp) in [("binary,text", &ab[..], bt.as_bytes(), ref_contains(a, b)), ("text,binary", bt.as_bytes(), &ab[..], ref_contains(b, a)), ("binary,binary", &ab[..], &bb[..], ref_contains(a, b)), ("binary,binary (reversed)", &bb[..], &ab[..], ref_contains(b, a))] {
                    acc.eval();
                    acc.nontrivial += 1;
                    match guard(|| jsonb::contains(x, y)) {
                        Ok(o) if o == exp => {}
                        other => acc.vio("contains:non-finite-operand:differs-from-rules", || json!({"cfg": cfg, "non-finite document": format!("{:?}", a), "finite document": format!("{:?}", b), "expected": exp, "observed": format!("{:?}", other.map_err(|p| panic_class(&p)))})),
                    }
                }
            }
        }));
    }
    // the tree implementation (reached when an argument is JSON text) against the same rules
    let fin: std::sync::Arc<Vec<usize>> = std::sync::Arc::new((0..n).filter(|i| d.texts[*i].is_some()).step_by(if tier.thorough() { 1 } else { 2 }).collect());
    let (d3, f1) = (d.clone(), fin.clone());
    sp.push(Space::new("all-pairs-text-form", fin.len() as u64, move |k, acc| {
        let d = &d3;
        let i = f1[k as usize];
        let ti = d.texts[i].as_ref().unwrap().as_bytes();
        for &j in f1.iter() {
            acc.eval();
            let tj = d.texts[j].as_ref().unwrap().as_bytes();
            // what the texts denote: non-negative integers are unsigned after parsing, which does not
            // change containment (numbers match by value)
            let exp = ref_contains(&d.vals[i], &d.vals[j]);
            for (cfg, a, b) in [("text,text", ti, tj), ("text,binary", ti, &d.bytes[j][..]), ("binary,text", &d.bytes[i][..], tj)] {
                match guard(|| jsonb::contains(a, b)) {
                    Err(p) => acc.vio(&format!("contains-text:{}", panic_class(&p)), || json!({"cfg": cfg, "a": d.texts[i], "b": d.texts[j]})),
                    Ok(o) => {
                        if o != exp {
                            let class = if exp { "contains-text:false-but-rules-say-true" } else { "contains-text:true-but-rules-say-false" };
                            acc.vio(class, || json!({"cfg": cfg, "a": d.texts[i], "b": d.texts[j], "expected": exp, "observed": o}));
                        }
                    }
                }
            }
        }
    }));
    {
        let sz = std::sync::Arc::new(crate::checks::scale::sizes_heavy(tier));
        sp.push(Space::new("size sweep: every N up to the limit, 6 related documents, all pairs", sz.len() as u64, move |i, acc| crate::checks::scale::sized_relations(sz[i as usize], acc, 1)));
        sp.push(Space::new("depth sweep: every depth 1..=300, 21 chains, all pairs", 300, |i, acc| crate::checks::scale::depth_relations(i as usize + 1, acc, 1)));
    }
    let nv = crate::checks::scale::variants().len() as u64;
    sp.push(Space::new("scale-pairs (big documents and near-copies)", nv, |i, acc| crate::checks::scale::relation_row(i as usize, acc, 1)));
    let d2 = d.clone();
    sp.push(Space::new("laws-on-own-matrix", 1, move |_, acc| {
        use rayon::prelude::*;
        let d = &d2;
        let w = n.div_ceil(64);
        let rows: Vec<Vec<u64>> = (0..n)
            .into_par_iter()
            .map(|i| {
                let mut r = vec![0u64; w];
                for j in 0..n {
                    if guard(|| jsonb::contains(&d.bytes[i], &d.bytes[j])).unwrap_or(false) {
                        r[j / 64] |= 1 << (j % 64);
                    }
                }
                r
            })
            .collect();
        acc.evals((n * n) as u64);
        for i in 0..n {
            if rows[i][i / 64] & (1 << (i % 64)) == 0 {
                acc.vio("contains-laws:not-reflexive", || json!({"a": format!("{:?}", d.vals[i])}));
            }
        }
        // transitivity for all triples: row_i must include row_j for every j in row_i
        let bad: Vec<(usize, usize, usize)> = (0..n)
            .into_par_iter()
            .filter_map(|i| {
                for j in 0..n {
                    if rows[i][j / 64] & (1 << (j % 64)) != 0 {
                        for k in 0..w {
                            let missing = rows[j][k] & !rows[i][k];
                            if missing != 0 {
                                return Some((i, j, k * 64 + missing.trailing_zeros() as usize));
                            }
                        }
                    }
                }
                None
            })
            .collect();
        for (a, b, c) in bad {
            acc.vio("contains-laws:not-transitive", || json!({"a": format!("{:?}", d.vals[a]), "b": format!("{:?}", d.vals[b]), "c": format!("{:?}", d.vals[c]), "note": "a@>b and b@>c but not a@>c"}));
        }
    }));
    sp
}

pub fn meta(tier: Tier) -> (String, serde_json::Value, Vec<String>) {
    (
        "full relation: every ordered pair of (base universe + documents derived by dropping/reordering/duplicating/nesting + number re-typing 1 / 1.0 / signed 1) against the model's @> rules; reflexivity and transitivity for ALL triples on the implementation's own matrix by bit-set closure. Non-trivial = right side is a container and the pair is off-diagonal.".into(),
        json!({"base": if tier.thorough() {"P5"} else {"D2"}, "pairs": "all ordered pairs", "triples": "all (bit-set closure)"}),
        vec![],
    )
}
