//! C19 — conversion to and from serde_json preserves the document.
use crate::conv::*;
use crate::harness::*;
use crate::univ;
use refmodel::layout::enc;
use refmodel::text::strict_json;
use refmodel::{RNum, RVal};
use serde_json::json;

/// the document as an independent strict parser reads it from text: non-negative integers are
/// unsigned
pub fn norm_text(v: &RVal) -> RVal {
    match v {
        RVal::Num(RNum::I(i)) if *i >= 0 => RVal::Num(RNum::U(*i as u64)),
        RVal::Arr(a) => RVal::Arr(a.iter().map(norm_text).collect()),
        RVal::Obj(o) => RVal::Obj(o.iter().map(|(k, x)| (k.clone(), norm_text(x))).collect()),
        x => x.clone(),
    }
}

pub fn check_value(v: &RVal, acc: &mut Acc) {
    acc.eval();
    if v.is_container() {
        acc.nontrivial += 1;
    }
    let bytes = enc(v);
    let val = to_value(v);
    let expect = norm_text(v);
    let ctx = || json!({"value": format!("{:?}", v)});
    // bytes -> serde
    match guard(|| jsonb::to_serde_json(&bytes)) {
        Err(p) => acc.vio(&format!("to_serde_json:{}", panic_class(&p)), ctx),
        Ok(Err(e)) => acc.vio("to_serde_json:error-on-valid-document", || json!({"ctx": ctx(), "err": format!("{:?}", e)})),
        Ok(Ok(sj)) => {
            let got = from_serde(&sj);
            if got != expect {
                acc.vio("to_serde_json:differs-from-document", || json!({"ctx": ctx(), "observed": format!("{:?}", got)}));
            }
            // and against the strict parser on jsonb's own rendering
            let text = jsonb::to_string(&bytes);
            if let Ok(parsed) = strict_json(text.as_bytes()) {
                if parsed != got {
                    acc.vio("to_serde_json:differs-from-strict-parse-of-to_string", || json!({"ctx": ctx(), "text": text, "observed": format!("{:?}", got)}));
                }
            } else {
                acc.note("to_string-not-strict-json (judged by C03)", 1);
            }
            // back
            match guard(|| jsonb::Value::from(&sj)) {
                Err(p) => acc.vio(&format!("from-serde:{}", panic_class(&p)), ctx),
                Ok(back) => {
                    if back != val || val != back {
                        acc.vio("from-serde:not-equal-to-original", || json!({"ctx": ctx(), "back": format!("{:?}", back)}));
                    }
                    if from_value(&back) != expect {
                        acc.vio("from-serde:differs-from-document", || json!({"ctx": ctx(), "back": format!("{:?}", back)}));
                    }
                }
            }
            // object-only variant
            match guard(|| jsonb::to_serde_json_object(&bytes)) {
                Err(p) => acc.vio(&format!("to_serde_json_object:{}", panic_class(&p)), ctx),
                Ok(Err(e)) => acc.vio("to_serde_json_object:error-on-valid-document", || json!({"ctx": ctx(), "err": format!("{:?}", e)})),
                Ok(Ok(o)) => {
                    let ok = match (&o, &sj) {
                        (Some(m), serde_json::Value::Object(g)) => m == g,
                        (None, serde_json::Value::Object(_)) => false,
                        (Some(_), _) => false,
                        (None, _) => true,
                    };
                    if !ok {
                        acc.vio("to_serde_json_object:disagrees-with-general", || json!({"ctx": ctx(), "observed": format!("{:?}", o)}));
                    }
                }
            }
        }
    }
    // tree -> serde
    match guard(|| serde_json::Value::from(val.clone())) {
        Err(p) => acc.vio(&format!("value-into-serde:{}", panic_class(&p)), ctx),
        Ok(sj) => {
            if from_serde(&sj) != expect {
                acc.vio("value-into-serde:differs-from-document", || json!({"ctx": ctx(), "observed": format!("{:?}", from_serde(&sj))}));
            }
            match guard(|| jsonb::Value::from(sj)) {
                Ok(back) if back == val && val == back && from_value(&back) == expect => {}
                other => acc.vio("value-into-serde:round-trip-not-equal", || json!({"ctx": ctx(), "back": format!("{:?}", other)})),
            }
        }
    }
    acc.sample(|| json!({"value": refmodel::text::print(v)}));
}

pub fn spaces(tier: Tier) -> Vec<Space<'static>> {
    let mut sp: Vec<Space> = vec![];
    {
        let tv = refmodel::gen::tagv_docs();
        sp.push(Space::new("tag-like payloads and keyword keys", tv.len() as u64, move |i, acc| check_value(&tv[i as usize], acc)));
    }
    {
        // documents that are just one string, including strings that spell JSON documents
        let mut whole: Vec<String> = univ::sstr().clone();
        for v in univ::d2().iter() {
            whole.push(refmodel::text::print(v));
        }
        whole.push(" {} ".into());
        sp.push(Space::new("whole-document strings (SSTR and the text of every D2 document)", whole.len() as u64, move |i, acc| check_value(&RVal::Str(whole[i as usize].clone()), acc)));
    }
    {
        // trees holding a SIGNED zero (what `Value::from(0i64)` or the text `-0` gives): encoded as the
        // one zero form, converted to serde_json's 0 and back to an unsigned zero - equal to the original
        let z = RVal::Num(RNum::I(0));
        let zs = vec![z.clone(), RVal::Arr(vec![z.clone()]), RVal::obj(vec![("a", z.clone())]), RVal::Arr(vec![RVal::u(0), z.clone(), RVal::f(0.0)]), RVal::obj(vec![("a", RVal::Arr(vec![z.clone(), RVal::i(-1)])), ("b", z)])];
        sp.push(Space::new("signed-zero trees", zs.len() as u64, move |i, acc| check_value(&zs[i as usize], acc)));
    }
    let d2 = univ::d2();
    sp.push(Space::new("d2", d2.len() as u64, move |i, acc| check_value(&d2[i as usize], acc)));
    let d1q: Vec<RVal> = univ::d1q().iter().filter(|v| v.all_finite()).cloned().collect();
    sp.push(Space::new("d1q", d1q.len() as u64, move |i, acc| check_value(&d1q[i as usize], acc)));
    let ss = univ::sstr();
    sp.push(Space::new("sstr", (ss.len() * ss.len()) as u64, move |i, acc| {
        let k = &ss[i as usize / ss.len()];
        let s = &ss[i as usize % ss.len()];
        let mut m = std::collections::BTreeMap::new();
        m.insert(k.clone(), RVal::Arr(vec![RVal::Str(s.clone())]));
        check_value(&RVal::Obj(m), acc)
    }));
    let b = univ::b64_finite();
    sp.push(Space::new("b64-finite", b.len() as u64 * 2, move |i, acc| {
        let n = RVal::Num(b[(i / 2) as usize]);
        check_value(&if i % 2 == 0 { n } else { RVal::obj(vec![("k", RVal::Arr(vec![RVal::Null, n]))]) }, acc)
    }));
    let ncp = if tier.thorough() { univ::N_CHARS } else { 0x10000 - 0x800 };
    sp.push(Space::new("codepoints", ncp * 2, |i, acc| {
        let s = univ::nth_char(i / 2).to_string();
        let v = if i % 2 == 0 {
            RVal::Arr(vec![RVal::Str(s)])
        } else {
            let mut m = std::collections::BTreeMap::new();
            m.insert(s, RVal::Null);
            RVal::Obj(m)
        };
        check_value(&v, acc)
    }));
    {
        let u = refmodel::gen::d3e_uni();
        let n = u.count(3);
        sp.push(Space::new("d3e (depth 3 over {\"\", 1}: empty strings nested at every level)", n, move |i, acc| {
            let v = u.nth(3, i);
            check_value(&v, acc)
        }));
    }
    sp.push(Space::new("wide (4-6 siblings over 5 kinds)", refmodel::gen::wide_count(), |i, acc| crate::checks::scale::wide_deep_doc(&refmodel::gen::wide_nth(i), acc, 4)));
    sp.push(Space::new("deep (4-6 levels, 5 sibling patterns per level)", refmodel::gen::deep_count(), |i, acc| crate::checks::scale::wide_deep_doc(&refmodel::gen::deep_nth(i), acc, 4)));
    {
        let sz = std::sync::Arc::new(crate::checks::scale::sizes(tier));
        let n = sz.len() as u64 * crate::checks::scale::N_FAMILIES;
        sp.push(Space::new("size sweep: every N up to the limit x 5 families", n, move |i, acc| {
            let d = crate::checks::scale::sized_doc((i % crate::checks::scale::N_FAMILIES) as u8, sz[(i / crate::checks::scale::N_FAMILIES) as usize]);
            crate::checks::scale::serde_doc(&d, acc)
        }));
        sp.push(Space::new("depth sweep: every depth 1..=300 x 3 shapes", 300, |i, acc| crate::checks::scale::depth_ops(i as usize + 1, acc, 4)));
    }
    sp.push(Space::new("entry length field with its top bit set (payloads of more than 2^27 bytes)", crate::checks::scale::N_HUGE, |i, acc| crate::checks::scale::serde_doc(&crate::checks::scale::huge_doc(i), acc)));
    let sd = crate::checks::scale::docs().clone();
    sp.push(Space::new("scale (counts/lengths/offsets across 2^8, 2^16, 2^20)", sd.len() as u64, move |i, acc| crate::checks::scale::serde_doc(&sd[i as usize], acc)));
    if tier.thorough() {
        let d2k = univ::d2k();
        sp.push(Space::new("d2k", d2k.count(2), move |i, acc| check_value(&d2k.nth(2, i), acc)));
        let d1: Vec<RVal> = univ::d1().iter().filter(|v| v.all_finite()).cloned().collect();
        sp.push(Space::new("d1", d1.len() as u64, move |i, acc| check_value(&d1[i as usize], acc)));
    }
    sp
}

pub fn meta(tier: Tier) -> (String, serde_json::Value, Vec<String>) {
    (
        "every document of the named universes with finite numbers: to_serde_json(bytes), serde_json::Value::from(tree), the reverse conversions and the object-only variant, compared STRUCTURALLY (shape, strings, member sets, u64/i64/f64 classification and exact value) with the model document and with the strict parser applied to jsonb's own rendering. Non-trivial = container document.".into(),
        json!({"universes": if tier.thorough() {"D2,D1q,SSTRxSSTR,B64 finite,all code points,D2k,D1"} else {"D2,D1q,SSTRxSSTR,B64 finite,BMP code points"}}),
        vec!["serde_json's own parser is not used as an oracle".into()],
    )
}
