//! C16 — key-path syntax parses to its meaning, prints back faithfully and never panics.
use crate::harness::*;
use jsonb::keypath::{parse_key_paths, KeyPath};
use refmodel::jparse::{parse_keypaths, Verdict};
use refmodel::ops::KP;
use serde_json::json;
use std::sync::Arc;

pub fn from_impl(k: &KeyPath) -> KP {
    match k {
        KeyPath::Index(i) => KP::Index(*i),
        KeyPath::Name(s) => KP::Name(crate::conv::safe_string(s)),
        KeyPath::QuotedName(s) => KP::QuotedName(crate::conv::safe_string(s)),
    }
}

fn needs_escape(v: &[KP]) -> bool {
    v.iter().any(|k| match k {
        KP::QuotedName(s) => s.contains('"') || s.contains('\\') || s.chars().any(|c| (c as u32) < 0x20),
        KP::Name(s) => !s.chars().all(|c| c.is_ascii_alphanumeric() || c == '_' || !c.is_ascii()),
        _ => false,
    })
}

fn has_braced_escape(input: &[u8]) -> bool {
    input.windows(3).enumerate().any(|(i, w)| {
        w == b"\\u{" && {
            let rest = &input[i + 3..];
            let n = rest.iter().take_while(|b| b.is_ascii_hexdigit()).count();
            n >= 1 && rest.get(n) == Some(&b'}')
        }
    })
}

pub fn judge_raw(input: &[u8], acc: &mut Acc) {
    acc.eval();
    let show = || json!({"input": String::from_utf8_lossy(input), "hex": refmodel::layout::hex(input)});
    let got = match guard(|| {
        parse_key_paths(input).map(|k| {
            let els = k.paths.iter().map(from_impl).collect::<Vec<_>>();
            // never print (char-level work) a path that holds an ill-formed string
            let ill = els.iter().any(|e| matches!(e, KP::Name(s) | KP::QuotedName(s) if s.starts_with("ILL-FORMED-UTF8[")));
            let printed = if ill { String::from("<not printed: ill-formed UTF-8>") } else { format!("{}", k) };
            (els, printed)
        })
    }) {
        Err(p) => {
            acc.outcome("panic");
            acc.vio(&format!("parse:{}", panic_class(&p)), show);
            return;
        }
        Ok(g) => g,
    };
    let rt = |g: &Vec<KP>, printed: &str, acc: &mut Acc| {
        if needs_escape(g) {
            return;
        }
        match guard(|| parse_key_paths(printed.as_bytes()).map(|k| k.paths.iter().map(from_impl).collect::<Vec<_>>())) {
            Ok(Ok(back)) if back == *g => {}
            other => acc.vio("print-parse:not-faithful", || json!({"input": String::from_utf8_lossy(input), "printed": printed, "elements": format!("{:?}", g), "reparsed": format!("{:?}", other.map(|r| r.ok()))})),
        }
    };
    // the braced escape `\u{H..}` is an extension of the crate's un-escaper that neither the property nor
    // the documentation defines: with a complete one in the input only "never a panic" (above) and the
    // printing clause are demanded
    let model = if has_braced_escape(input) { Verdict::Unspecified("braced escape \\u{..}".into()) } else { parse_keypaths(input) };
    match (model, got) {
        (Verdict::Accept(m), Ok((g, printed))) => {
            acc.outcome("accept/accept");
            acc.nontrivial += 1;
            if g != m {
                let class = if input.iter().any(|b| matches!(b, b'\t' | b'\n' | b'\r')) { "parse:wrong-elements:tab-or-newline-joins-a-name" } else { "parse:wrong-elements" };
                acc.vio(class, || json!({"input": show(), "intended": format!("{:?}", m), "observed": format!("{:?}", g)}));
            }
            rt(&g, &printed, acc);
        }
        (Verdict::Accept(m), Err(_)) => {
            acc.outcome("accept/reject");
            let class = if String::from_utf8_lossy(input).contains("\"\"") { "parse:rejects-documented-form:empty-quoted-name" } else { "parse:rejects-documented-form" };
            acc.vio(class, || json!({"input": show(), "intended": format!("{:?}", m)}));
        }
        (Verdict::Reject(_), Err(_)) => acc.outcome("reject/reject"),
        (Verdict::Reject(why), Ok((g, _))) => {
            acc.outcome("reject/accept");
            acc.vio("parse:accepts-input-outside-the-language", || json!({"input": show(), "why_outside": why, "observed": format!("{:?}", g)}));
        }
        (Verdict::Unspecified(_), Ok((g, printed))) => {
            acc.unspecified += 1;
            acc.outcome("unspecified/accept");
            rt(&g, &printed, acc);
        }
        (Verdict::Unspecified(_), Err(_)) => {
            acc.unspecified += 1;
            acc.outcome("unspecified/reject");
        }
    }
}

const ELEMS: [(&str, fn() -> KP); 28] = [
    ("\"\\udbff\\udfff\"", || KP::QuotedName("\u{10FFFF}".into())),
    ("\"\\ud800\\udc00\"", || KP::QuotedName("\u{10000}".into())),
    ("\"\\ud83c\\udf95x\"", || KP::QuotedName("\u{1F395}x".into())),
    ("\"\\u00e9\\n\"", || KP::QuotedName("é\n".into())),
    ("007", || KP::Index(7)),
    ("00000000007", || KP::Index(7)),
    ("-00000000000", || KP::Index(0)),
    ("+5", || KP::Index(5)),
    ("\"e\u{301}\"", || KP::QuotedName("e\u{301}".into())),
    ("\"\u{ad}x\"", || KP::QuotedName("\u{ad}x".into())),
    ("\"\u{200b}\"", || KP::QuotedName("\u{200b}".into())),
    ("\"\u{fe0f}\u{e000}\"", || KP::QuotedName("\u{fe0f}\u{e000}".into())),
    ("e\u{301}", || KP::Name("e\u{301}".into())),
    ("0", || KP::Index(0)),
    ("1", || KP::Index(1)),
    ("-1", || KP::Index(-1)),
    ("2147483647", || KP::Index(2147483647)),
    ("-2147483648", || KP::Index(-2147483648)),
    ("a", || KP::Name("a".into())),
    ("A", || KP::Name("A".into())),
    ("ab", || KP::Name("ab".into())),
    ("é", || KP::Name("é".into())),
    ("\"a\"", || KP::QuotedName("a".into())),
    ("\"\"", || KP::QuotedName("".into())),
    ("\"a b\"", || KP::QuotedName("a b".into())),
    ("\"1\"", || KP::QuotedName("1".into())),
    ("\"a\\\"b\"", || KP::QuotedName("a\"b".into())),
    ("\"A\"", || KP::QuotedName("A".into())),
];

pub const TOKENS: [&[u8]; 14] = [b"{", b"}", b",", b"\"", b"\\", b"a", b"1", b"-", b"+", b"u", b" ", b"\xFF", b".", "é".as_bytes()];

fn render(items: &[usize], ws: &dyn Fn(usize) -> &'static str) -> String {
    let mut s = String::new();
    let mut k = 0;
    let mut slot = |s: &mut String| {
        s.push_str(ws(k));
        k += 1;
    };
    slot(&mut s);
    s.push('{');
    if items.is_empty() {
        slot(&mut s);
    }
    for (i, it) in items.iter().enumerate() {
        if i > 0 {
            s.push(',');
        }
        slot(&mut s);
        s.push_str(ELEMS[*it].0);
        slot(&mut s);
    }
    s.push('}');
    slot(&mut s);
    s
}

pub fn spaces(tier: Tier) -> Vec<Space<'static>> {
    let mut sp: Vec<Space> = vec![];
    let ne = ELEMS.len() as u64;
    let total = 1 + ne + ne * ne + ne * ne * ne;
    sp.push(Space::new("lists<=3-x-all-spacings", total, move |mut i, acc| {
        let mut len = 0;
        let mut c = 1;
        while i >= c {
            i -= c;
            c *= ne;
            len += 1;
        }
        let mut items = vec![];
        for _ in 0..len {
            items.push((i % ne) as usize);
            i /= ne;
        }
        let want: Vec<KP> = items.iter().map(|k| (ELEMS[*k].1)()).collect();
        let slots = if len == 0 { 3 } else { 2 + 2 * len };
        let mut texts: Vec<String> = (0u32..(1 << slots)).map(|m| render(&items, &|k| if m & (1 << k) != 0 { " " } else { "" })).collect();
        for s in 0..slots {
            for w in ["\t", "\n", " \r\n "] {
                texts.push(render(&items, &|k| if k == s { w } else { "" }));
            }
        }
        for t in texts {
            judge_raw(t.as_bytes(), acc);
            // the renderer's intention must be what the model parser reads (self-test)
            if parse_keypaths(t.as_bytes()) != Verdict::Accept(want.clone()) {
                acc.vio("MODEL-SELFTEST:model-parser-disagrees-with-renderer", || json!({"text": t, "want": format!("{:?}", want), "model": format!("{:?}", parse_keypaths(t.as_bytes()))}));
            }
        }
        acc.sample(|| json!({"elements": format!("{:?}", want), "rendering": render(&items, &|_| " ")}));
    }));
    let l = if tier.thorough() { 7 } else { 6 };
    let nt = TOKENS.len() as u64;
    let tot: u64 = (0..=l).map(|k| nt.pow(k)).sum();
    // multi-byte sequences (byte order marks, Unicode white space, NUL run, CRLF, VT) at every position
    {
        const SEQS: [&[u8]; 10] = [b"\xEF\xBB\xBF", b"\xFE\xFF", b"\xC2\x85", b"\xC2\xA0", b"\xE2\x80\xA8", b"\xE3\x80\x80", b"\xE2\x80\x8B", b"\x00\x00", b"\r\n", b"\x0B"];
        let bases: Vec<&str> = vec!["{}", "{a}", "{a,1}", "{ a , -1 , \"b c\" }", "{\"a\\n\",b}", "{0}"];
        sp.push(Space::new("multi-byte sequences (BOMs, Unicode white space, NUL run, CRLF, VT) and every single byte value inserted at every position", bases.len() as u64, move |i, acc| {
            let t = bases[i as usize].as_bytes();
            for pos in 0..=t.len() {
                for s in SEQS {
                    let mut x = t[..pos].to_vec();
                    x.extend_from_slice(s);
                    x.extend_from_slice(&t[pos..]);
                    judge_raw(&x, acc);
                }
                for b in 0..=255u8 {
                    let mut x = t[..pos].to_vec();
                    x.push(b);
                    x.extend_from_slice(&t[pos..]);
                    judge_raw(&x, acc);
                }
            }
        }));
    }
    // every sequence of <= 3 units over escapes (all two-character escapes, surrogate halves, a BMP
    // escape, the braced form \\u{..} whole and cut) and ordinary characters that can follow them (u, blank, -, a, }), in
    // quoted and plain names
    {
        const U: [&str; 20] = ["\\/", "\\b", "\\f", "\\n", "\\r", "\\t", "\\\"", "\\\\", "\\ud800", "\\udc00", "\\u0041", "u", " ", "-", "a", "\\uD83D", "\\u{0041}", "\\u{1F600}", "\\u{", "}"];
        let n = U.len() as u64;
        let total: u64 = (1..=3u32).map(|k| n.pow(k)).sum();
        sp.push(Space::new("names: every sequence of <= 3 units over the escapes and the characters that may follow them", total, move |idx, acc| {
            let mut i = idx;
            let mut len = 1u32;
            let mut c = n;
            while i >= c {
                i -= c;
                c *= n;
                len += 1;
            }
            let mut body = String::new();
            for _ in 0..len {
                body.push_str(U[(i % n) as usize]);
                i /= n;
            }
            judge_raw(format!("{{\"{}\"}}", body).as_bytes(), acc);
            judge_raw(format!("{{x{},1}}", body).as_bytes(), acc);
        }));
    }
    // names that look like something else: float keywords, exponent forms, literals, keywords of the path language
    {
        const LOOKALIKES: [&str; 28] = ["nan", "NaN", "NAN", "inf", "Inf", "infinity", "Infinity", "-inf", "+inf", "e5", "1e5", "1E5", "0x10", "true", "false", "null", "last", "to", "1a", "a1", "-a", "+a", "1.5", ".5", "5.", "--1", "1_000", "1e"];
        sp.push(Space::new("names that look like numbers, float keywords or literals", LOOKALIKES.len() as u64, |i, acc| {
            let n = LOOKALIKES[i as usize];
            for t in [format!("{{{}}}", n), format!("{{0,{}}}", n), format!("{{ {} }}", n), format!("{{{},a}}", n), format!("{{\"{}\"}}", n)] {
                judge_raw(t.as_bytes(), acc);
            }
        }));
    }
    // numbers around every width boundary as elements (an index when it fits i32, else per the grammar)
    {
        let nums = crate::checks::c20::extreme_number_texts();
        sp.push(Space::new("numbers around width boundaries as elements", nums.len() as u64, move |i, acc| {
            let n = &nums[i as usize];
            for t in [format!("{{{}}}", n), format!("{{a,{}}}", n), format!("{{{},\"x\"}}", n), format!("{{ {} }}", n)] {
                judge_raw(t.as_bytes(), acc);
            }
        }));
    }
    // every Unicode scalar value as a plain name, inside a plain name and inside a quoted name
    sp.push(Space::new("every scalar value in a plain name, between name characters, and quoted", crate::univ::N_CHARS, |i, acc| {
        let c = crate::univ::nth_char(i);
        for t in [format!("{{{}}}", c), format!("{{a{}b}}", c), format!("{{\"{}\"}}", c), format!("{{1,{}x}}", c)] {
            judge_raw(t.as_bytes(), acc);
        }
    }));
    sp.push(Space::new("token-soup", tot.div_ceil(256), move |blk, acc| {
        for idx in (blk * 256)..((blk + 1) * 256).min(tot) {
            let mut i = idx;
            let mut len = 0;
            let mut c = 1;
            while i >= c {
                i -= c;
                c *= nt;
                len += 1;
            }
            let mut toks = [0usize; 8];
            for k in 0..len {
                toks[len - 1 - k] = (i % nt) as usize;
                i /= nt;
            }
            let mut text = Vec::with_capacity(16);
            for k in 0..len {
                text.extend_from_slice(TOKENS[toks[k]]);
            }
            judge_raw(&text, acc);
        }
    }));
    let bases: Arc<Vec<String>> = Arc::new({
        let mut b = vec![];
        for i in 0..ELEMS.len() {
            b.push(render(&[i], &|_| ""));
            for j in 0..ELEMS.len() {
                b.push(render(&[i, j], &|k| if k % 2 == 1 { " " } else { "" }));
            }
        }
        b.push("{}".into());
        b
    });
    let b1 = bases.clone();
    sp.push(Space::new("single-token-corruptions", bases.len() as u64, move |i, acc| {
        let t = b1[i as usize].as_bytes().to_vec();
        for pos in 0..=t.len() {
            for tok in TOKENS.iter() {
                let mut x = t[..pos].to_vec();
                x.extend_from_slice(tok);
                x.extend_from_slice(&t[pos..]);
                judge_raw(&x, acc);
                if pos < t.len() {
                    let mut y = t[..pos].to_vec();
                    y.extend_from_slice(tok);
                    y.extend_from_slice(&t[pos + 1..]);
                    judge_raw(&y, acc);
                }
            }
            if pos < t.len() {
                let mut d = t.clone();
                d.remove(pos);
                judge_raw(&d, acc);
                judge_raw(&t[..pos], acc);
            }
        }
    }));
    sp
}

pub fn meta(tier: Tier) -> (String, serde_json::Value, Vec<String>) {
    (
        "LANG: (a) every list of <=3 elements over a 15-element alphabet (indices incl. the i32 limits, plain names incl. multi-byte, quoted names incl. empty, with a space, digits-only and an escaped quote) in EVERY spacing variant (all 2^slots, plus tab / newline / CRLF in each slot singly) and the empty list: accepted with exactly those elements, print -> parse faithful; (b) EVERY token string up to the length bound over a 14-token alphabet; (c) every single-token insertion / substitution / deletion / truncation of every rendering of the 1- and 2-element lists: never a panic; accepted iff the core grammar accepts, rejected if the liberal grammar rejects. Non-trivial = accepted input.".into(),
        json!({"token_soup_max_len": if tier.thorough() {7} else {6}, "unspecified": "digit strings overflowing i32, plain names with punctuation, backslashes or control characters"}),
        vec![],
    )
}
