//! ISOLATE engine: run cases that may abort the process (stack exhaustion, allocation failure)
//! in worker subprocesses.  The worker announces each case id before executing it, so a dead
//! worker is a *recorded outcome attributed to that exact case*, never a machinery failure.

use std::io::{BufRead, BufReader, Write};
use std::process::{Command, Stdio};
use std::time::{Duration, Instant};

#[derive(Debug, Clone, PartialEq)]
pub enum CaseOutcome {
    /// worker finished the case and reported this line
    Done(String),
    /// worker died while running the case
    Died { signal: Option<i32>, code: Option<i32>, stderr_tail: String },
    /// worker exceeded the per-case time limit and was killed
    TimedOut,
}

/// Run `cases` (opaque one-line strings) through `mc worker <kind>`; one worker is reused until
/// it dies.  Returns outcomes in order.  If `stop_at_first_death` the remaining cases are
/// skipped (returned as None).
pub fn run_cases(kind: &str, cases: &[String], per_case_limit: Duration, stop_at_first_death: bool) -> Vec<Option<CaseOutcome>> {
    let exe = std::env::current_exe().expect("current_exe");
    let mut out: Vec<Option<CaseOutcome>> = vec![None; cases.len()];
    let mut i = 0;
    while i < cases.len() {
        let mut child = Command::new(&exe)
            .arg("worker")
            .arg(kind)
            .stdin(Stdio::piped())
            .stdout(Stdio::piped())
            .stderr(Stdio::piped())
            .spawn()
            .expect("spawn worker");
        let mut stdin = child.stdin.take().unwrap();
        let stdout = child.stdout.take().unwrap();
        let (tx, rx) = std::sync::mpsc::channel::<String>();
        let reader = std::thread::spawn(move || {
            for line in BufReader::new(stdout).lines() {
                match line {
                    Ok(l) => {
                        if tx.send(l).is_err() {
                            break;
                        }
                    }
                    Err(_) => break,
                }
            }
        });
        let mut died = false;
        while i < cases.len() {
            if writeln!(stdin, "{}", cases[i]).is_err() || stdin.flush().is_err() {
                died = true;
            }
            let t0 = Instant::now();
            let mut got: Option<String> = None;
            if !died {
                loop {
                    match rx.recv_timeout(Duration::from_millis(50)) {
                        Ok(l) => {
                            if let Some(rest) = l.strip_prefix("END ") {
                                got = Some(rest.to_string());
                                break;
                            }
                        }
                        Err(std::sync::mpsc::RecvTimeoutError::Timeout) => {
                            if let Ok(Some(_)) = child.try_wait() {
                                // drain what is left
                                while let Ok(l) = rx.recv_timeout(Duration::from_millis(20)) {
                                    if let Some(rest) = l.strip_prefix("END ") {
                                        got = Some(rest.to_string());
                                    }
                                }
                                died = got.is_none();
                                break;
                            }
                            if t0.elapsed() > per_case_limit {
                                let _ = child.kill();
                                out[i] = Some(CaseOutcome::TimedOut);
                                died = true;
                                break;
                            }
                        }
                        Err(_) => {
                            died = true;
                            break;
                        }
                    }
                }
            }
            if let Some(g) = got {
                out[i] = Some(CaseOutcome::Done(g));
                i += 1;
                continue;
            }
            if died {
                break;
            }
        }
        drop(stdin);
        let status = child.wait().ok();
        let mut err = String::new();
        if let Some(mut e) = child.stderr.take() {
            use std::io::Read;
            let _ = e.read_to_string(&mut err);
        }
        let _ = reader.join();
        if i < cases.len() && out[i].is_none() {
            use std::os::unix::process::ExitStatusExt;
            let tail: String = err.lines().rev().take(3).collect::<Vec<_>>().into_iter().rev().collect::<Vec<_>>().join(" | ");
            out[i] = Some(CaseOutcome::Died {
                signal: status.and_then(|s| s.signal()),
                code: status.and_then(|s| s.code()),
                stderr_tail: tail.chars().take(300).collect(),
            });
        }
        if i < cases.len() && matches!(out[i], Some(CaseOutcome::Died { .. }) | Some(CaseOutcome::TimedOut)) {
            i += 1;
            if stop_at_first_death {
                break;
            }
        }
    }
    out
}

/// worker side: read case lines from stdin, call `f`, print END lines.
pub fn worker_loop(f: &dyn Fn(&str) -> String) {
    let stdin = std::io::stdin();
    let stdout = std::io::stdout();
    for line in stdin.lock().lines() {
        let Ok(line) = line else { break };
        {
            let mut o = stdout.lock();
            let _ = writeln!(o, "BEGIN {}", line);
            let _ = o.flush();
        }
        let r = f(&line);
        let mut o = stdout.lock();
        let _ = writeln!(o, "END {}", r.replace('\n', " "));
        let _ = o.flush();
    }
}
