//! The menu of buffer-writing library calls derivable from a document (shared by C06, C07, C17).
use crate::checks::c05::{keypaths, names_for, to_keypath};
use jsonb::keypath::KeyPath;
use refmodel::layout::enc;
use refmodel::ops::{self, EditErr};
use refmodel::RVal;
use std::collections::BTreeSet;
use std::sync::Arc;

pub type RunFn = Box<dyn Fn(&mut Vec<u8>) -> Result<(), jsonb::Error> + Send + Sync>;

pub struct Call {
    pub label: String,
    pub expect: Result<RVal, EditErr>,
    pub run: RunFn,
}

pub fn map_err(e: &jsonb::Error) -> Option<EditErr> {
    match e {
        jsonb::Error::InvalidJsonType => Some(EditErr::InvalidJsonType),
        jsonb::Error::InvalidObject => Some(EditErr::InvalidObject),
        jsonb::Error::ObjectDuplicateKey => Some(EditErr::ObjectDuplicateKey),
        _ => None,
    }
}

pub fn pool8() -> Vec<RVal> {
    vec![
        RVal::Null,
        RVal::u(1),
        RVal::s("a"),
        RVal::arr(vec![]),
        RVal::obj(vec![]),
        RVal::arr(vec![RVal::u(1), RVal::Null]),
        RVal::obj(vec![("a", RVal::Null), ("c", RVal::arr(vec![RVal::s("é")]))]),
        RVal::f(1.0),
        // shares 12 keys (with different values) with the 40-member seed objects
        RVal::Obj((0..12).map(|i| (format!("k{:02}", i * 3), RVal::s("right"))).collect()),
    ]
}

pub struct Opts {
    pub extremes: bool,
    pub pool: Arc<Vec<(RVal, Vec<u8>)>>,
    /// include the multiset array functions and builders
    pub sets: bool,
}

pub fn mkpool(v: Vec<RVal>) -> Arc<Vec<(RVal, Vec<u8>)>> {
    Arc::new(v.into_iter().map(|x| { let b = enc(&x); (x, b) }).collect())
}

/// every editing call whose arguments are derived from `v`
pub fn edit_calls(v: &RVal, o: &Opts) -> Vec<Call> {
    edit_calls_from(v, o, enc(v))
}

/// the same calls with the document handed over in the given representation (its JSONB encoding,
/// or a JSON text denoting it)
pub fn edit_calls_from(v: &RVal, o: &Opts, doc: Vec<u8>) -> Vec<Call> {
    let b: Arc<Vec<u8>> = Arc::new(doc);
    let mut out: Vec<Call> = vec![];
    let len = ops::array_length(v).unwrap_or(1) as i32;
    // concat
    for (q, qb) in o.pool.iter() {
        let (b1, q1) = (b.clone(), qb.clone());
        out.push(Call { label: format!("concat(s,{:?})", q), expect: Ok(ops::concat(v, q)), run: Box::new(move |buf| jsonb::concat(&b1, &q1, buf)) });
        let (b1, q1) = (b.clone(), qb.clone());
        out.push(Call { label: format!("concat({:?},s)", q), expect: Ok(ops::concat(q, v)), run: Box::new(move |buf| jsonb::concat(&q1, &b1, buf)) });
    }
    {
        let b1 = b.clone();
        out.push(Call { label: "concat(s,s)".into(), expect: Ok(ops::concat(v, v)), run: Box::new(move |buf| jsonb::concat(&b1, &b1, buf)) });
    }
    // delete_by_name
    for name in names_for(v) {
        let b1 = b.clone();
        let n1 = name.clone();
        out.push(Call { label: format!("delete_by_name({:?})", name), expect: ops::delete_by_name(v, &name), run: Box::new(move |buf| jsonb::delete_by_name(&b1, &n1, buf)) });
    }
    // delete_by_index / array_insert positions
    let mut poss: Vec<i32> = ((-len - 2)..=(len + 2)).collect();
    if o.extremes {
        poss.extend([i32::MIN, i32::MIN + 1, i32::MAX - 1, i32::MAX]);
    }
    for &i in &poss {
        let b1 = b.clone();
        out.push(Call { label: format!("delete_by_index({})", i), expect: ops::delete_by_index(v, i), run: Box::new(move |buf| jsonb::delete_by_index(&b1, i, buf)) });
        for (q, qb) in o.pool.iter().take(if o.sets { 8 } else { 3 }) {
            let (b1, q1) = (b.clone(), qb.clone());
            out.push(Call { label: format!("array_insert({},{:?})", i, q), expect: Ok(ops::array_insert(v, i, q)), run: Box::new(move |buf| jsonb::array_insert(&b1, i, &q1, buf)) });
        }
    }
    // delete_by_keypath
    for path in keypaths(v, v.depth() + 1, o.extremes) {
        let b1 = b.clone();
        let kp: Vec<KeyPath<'static>> = path.iter().map(to_keypath).collect();
        out.push(Call { label: format!("delete_by_keypath({:?})", path), expect: ops::delete_by_keypath(v, &path), run: Box::new(move |buf| jsonb::delete_by_keypath(&b1, kp.iter(), buf)) });
    }
    // object_insert
    let mut keys: Vec<String> = vec!["".into(), "0".into(), "zzz".into(), "b".into()];
    if let RVal::Obj(m) = v {
        for k in m.keys() {
            keys.push(k.clone());
            keys.push(format!("{}x", k));
        }
    }
    // names spelled like the document's own string values
    if let RVal::Obj(m) = v {
        for x in m.values() {
            if let RVal::Str(s) = x {
                keys.push(s.clone());
            }
        }
    }
    if let RVal::Obj(m) = v {
        if !m.is_empty() && m.keys().all(|k| refmodel::gen::ORDER_KEYS.contains(&k.as_str())) {
            keys.extend(refmodel::gen::ORDER_KEYS.iter().map(|s| s.to_string()));
        }
    }
    keys.sort();
    keys.dedup();
    for k in &keys {
        for flag in [false, true] {
            for (q, qb) in o.pool.iter().take(if o.sets { 8 } else { 3 }) {
                let (b1, q1, k1) = (b.clone(), qb.clone(), k.clone());
                out.push(Call { label: format!("object_insert({:?},{:?},{})", k, q, flag), expect: ops::object_insert(v, k, q, flag), run: Box::new(move |buf| jsonb::object_insert(&b1, &k1, &q1, flag, buf)) });
            }
        }
    }
    // object_delete / object_pick: every subset of (keys of v + absent)
    // candidates: two keys sorting before every other ("" and "!"), the document's keys, in the
    // one-shot mode a key right after each of them, and one after all: requested-but-absent keys
    // before, between and after present ones, several in a row
    let mut kc: Vec<String> = vec!["".into(), "!".into()];
    if let RVal::Obj(m) = v {
        for k in m.keys() {
            kc.push(k.clone());
            if !o.sets {
                kc.push(format!("{}!", k));
            }
        }
    }
    kc.push("zz".into());
    kc.dedup();
    let cap = kc.len().min(if o.sets { 5 } else { 7 });
    for mask in 0u32..(1 << cap) {
        let ks: BTreeSet<String> = (0..cap).filter(|i| mask & (1 << i) != 0).map(|i| kc[i].clone()).collect();
        let (b1, ks1) = (b.clone(), ks.clone());
        out.push(Call { label: format!("object_delete({:?})", ks), expect: ops::object_delete(v, &ks), run: Box::new(move |buf| { let r: BTreeSet<&str> = ks1.iter().map(|s| s.as_str()).collect(); jsonb::object_delete(&b1, &r, buf) }) });
        let (b1, ks1) = (b.clone(), ks.clone());
        out.push(Call { label: format!("object_pick({:?})", ks), expect: ops::object_pick(v, &ks), run: Box::new(move |buf| { let r: BTreeSet<&str> = ks1.iter().map(|s| s.as_str()).collect(); jsonb::object_pick(&b1, &r, buf) }) });
    }
    {
        let b1 = b.clone();
        out.push(Call { label: "strip_nulls".into(), expect: Ok(ops::strip_nulls(v)), run: Box::new(move |buf| jsonb::strip_nulls(&b1, buf)) });
    }
    if o.sets {
        let b1 = b.clone();
        out.push(Call { label: "array_distinct".into(), expect: Ok(ops::array_distinct(v)), run: Box::new(move |buf| jsonb::array_distinct(&b1, buf)) });
        for (q, qb) in o.pool.iter() {
            let (b1, q1) = (b.clone(), qb.clone());
            out.push(Call { label: format!("array_intersection(s,{:?})", q), expect: Ok(ops::array_intersection(v, q)), run: Box::new(move |buf| jsonb::array_intersection(&b1, &q1, buf)) });
            let (b1, q1) = (b.clone(), qb.clone());
            out.push(Call { label: format!("array_except(s,{:?})", q), expect: Ok(ops::array_except(v, q)), run: Box::new(move |buf| jsonb::array_except(&b1, &q1, buf)) });
            let (b1, q1) = (b.clone(), qb.clone());
            out.push(Call { label: format!("build_array([s,{:?}])", q), expect: Ok(ops::build_array(&[v.clone(), q.clone()])), run: Box::new(move |buf| jsonb::build_array([&b1[..], &q1[..]], buf)) });
            for (ka, kb) in [("k1", "k2"), ("k2", "k1"), ("k", "k")] {
                let (b1, q1) = (b.clone(), qb.clone());
                out.push(Call {
                    label: format!("build_object([({:?},s),({:?},{:?})])", ka, kb, q),
                    expect: Ok(ops::build_object(&[(ka.to_string(), v.clone()), (kb.to_string(), q.clone())])),
                    run: Box::new(move |buf| jsonb::build_object([(ka, &b1[..]), (kb, &q1[..])], buf)),
                });
            }
        }
        let b1 = b.clone();
        out.push(Call { label: "build_array([s,s])".into(), expect: Ok(ops::build_array(&[v.clone(), v.clone()])), run: Box::new(move |buf| jsonb::build_array([&b1[..], &b1[..]], buf)) });
    }
    out
}

// ---------------------------------------------------------------------------------------------
// every function that writes into a caller-provided buffer (C17)

pub type BufFn = Box<dyn Fn(&mut Vec<u8>, &mut Vec<u64>) -> Result<(), jsonb::Error> + Send + Sync>;

pub struct BufCall {
    pub label: String,
    pub run: BufFn,
}

/// the last four paths end in an error for some documents only after earlier items were selected
/// (unsupported arithmetic reached for a later element): nothing may stay appended
pub const PATH_MENU: [&str; 18] = [
    "$", "$.*", "$[*]", "$.a", "$[0]", "$[last]", "$[0 to last]", "$[*]?(@ == 1)", "$.*?(exists(@.a))", "$[*].a", "$[*][*]", "$.a > 0",
    "$[*]?(@ == 1 || exists(@.a?(@ + 1)))", "$.*?(@ == 1 || exists(@.a?(@ * 2)))", "$[*]?(exists(@.a?(@ + 1)))", "$[*]?(@ == 1)?(@ + 1)",
    // the root referred to from inside a filter that follows member steps
    "$.a[*]?(@ == $.b)", "$.a?(@ == $.b || exists($.a))",
];

pub fn buffer_calls(v: &RVal, o: &Opts) -> Vec<BufCall> {
    let mut out: Vec<BufCall> = edit_calls(v, o)
        .into_iter()
        .map(|c| {
            let run = c.run;
            BufCall { label: c.label, run: Box::new(move |d, _| run(d)) }
        })
        .collect();
    let b: Arc<Vec<u8>> = Arc::new(enc(v));
    let val = crate::conv::to_value(v);
    {
        let val = val.clone();
        out.push(BufCall { label: "Value::write_to_vec".into(), run: Box::new(move |d, _| { val.write_to_vec(d); Ok(()) }) });
    }
    {
        let val = val.clone();
        out.push(BufCall { label: "LazyValue::Value::write_to_vec".into(), run: Box::new(move |d, _| { jsonb::LazyValue::Value(val.clone()).write_to_vec(d); Ok(()) }) });
        let b1 = b.clone();
        out.push(BufCall { label: "LazyValue::Raw::write_to_vec".into(), run: Box::new(move |d, _| { jsonb::LazyValue::Raw(std::borrow::Cow::Borrowed(&b1[..])).write_to_vec(d); Ok(()) }) });
    }
    {
        let b1 = b.clone();
        out.push(BufCall { label: "convert_to_comparable".into(), run: Box::new(move |d, _| { jsonb::convert_to_comparable(&b1, d); Ok(()) }) });
    }
    {
        // builders fed by an iterator whose size hint is not exact (filter) and by a long one
        let b1 = b.clone();
        let q: Arc<Vec<u8>> = Arc::new(o.pool[5].1.clone());
        let q1 = q.clone();
        out.push(BufCall { label: "build_array(filtered iterator of 3)".into(), run: Box::new(move |d, _| { let items = [&b1[..], &q1[..], &b1[..]]; jsonb::build_array(items.iter().copied().filter(|x| !x.is_empty()), d) }) });
        let (b1, q1) = (b.clone(), q.clone());
        out.push(BufCall { label: "build_object(filtered iterator of 3)".into(), run: Box::new(move |d, _| { let items = [("b", &b1[..]), ("a", &q1[..]), ("c", &b1[..])]; jsonb::build_object(items.iter().copied().filter(|x| !x.1.is_empty()), d) }) });
        let b1 = b.clone();
        out.push(BufCall { label: "build_array(40 items via chain/filter)".into(), run: Box::new(move |d, _| jsonb::build_array((0..40).map(|_| &b1[..]).filter(|x| x.len() > 1), d)) });
    }
    for p in PATH_MENU {
        for which in 0..7 {
            let b1 = b.clone();
            let name = ["get_by_path", "get_by_path_first", "get_by_path_array", "select(First)", "select(Array)", "select(All)", "select(Mixed)"][which];
            out.push(BufCall {
                label: format!("{}({})", name, p),
                run: Box::new(move |d, offs| {
                    let jp = jsonb::jsonpath::parse_json_path(p.as_bytes())?;
                    match which {
                        0 => jsonb::get_by_path(&b1, jp, d, offs),
                        1 => jsonb::get_by_path_first(&b1, jp, d, offs),
                        2 => jsonb::get_by_path_array(&b1, jp, d, offs),
                        k => {
                            let mode = [jsonb::jsonpath::Mode::First, jsonb::jsonpath::Mode::Array, jsonb::jsonpath::Mode::All, jsonb::jsonpath::Mode::Mixed][k - 3].clone();
                            let sel = jsonb::jsonpath::Selector::new(jp, mode);
                            sel.select(&b1, d, offs)
                        }
                    }
                }),
            });
        }
    }
    out
}
