//! Harness-side global allocator.  Forged container counts make the decoder request hundreds of
//! megabytes to gigabytes (`VecDeque::with_capacity(count)`) which it then barely touches; going
//! through mmap/munmap for each of the millions of faulted inputs serialises all threads on the
//! kernel's mmap lock.  Requests >= 16 MiB are therefore served from a small table of lazily
//! mapped, never-unmapped, MAP_NORESERVE regions.  Semantics are unchanged (memory is zero-fill
//! on demand either way); set MC_SYSTEM_ALLOC=1 to bypass (the crash-isolated workers do).
use std::alloc::{GlobalAlloc, Layout, System};
use std::sync::atomic::{AtomicBool, AtomicUsize, Ordering};

const BIG_MIN: usize = 16 << 20;
const BIG_CAP: usize = 20 << 30;
const SLOTS: usize = 48;

pub struct BigAlloc;

static BASE: [AtomicUsize; SLOTS] = [const { AtomicUsize::new(0) }; SLOTS];
static BUSY: [AtomicBool; SLOTS] = [const { AtomicBool::new(false) }; SLOTS];
static DISABLED: AtomicBool = AtomicBool::new(false);
pub static BIG_REQUESTS: AtomicUsize = AtomicUsize::new(0);
pub static BIGGEST: AtomicUsize = AtomicUsize::new(0);

pub fn disable() {
    DISABLED.store(true, Ordering::SeqCst);
}

unsafe fn slot_of(ptr: *mut u8) -> Option<usize> {
    let p = ptr as usize;
    for i in 0..SLOTS {
        let b = BASE[i].load(Ordering::Relaxed);
        if b != 0 && b == p {
            return Some(i);
        }
    }
    None
}

unsafe impl GlobalAlloc for BigAlloc {
    unsafe fn alloc(&self, l: Layout) -> *mut u8 {
        if l.size() >= BIG_MIN {
            BIG_REQUESTS.fetch_add(1, Ordering::Relaxed);
            BIGGEST.fetch_max(l.size(), Ordering::Relaxed);
            if l.size() <= BIG_CAP && l.align() <= 4096 && !DISABLED.load(Ordering::Relaxed) {
                for i in 0..SLOTS {
                    if BUSY[i].compare_exchange(false, true, Ordering::Acquire, Ordering::Relaxed).is_ok() {
                        let mut b = BASE[i].load(Ordering::Relaxed);
                        if b == 0 {
                            let p = libc::mmap(std::ptr::null_mut(), BIG_CAP, libc::PROT_READ | libc::PROT_WRITE, libc::MAP_PRIVATE | libc::MAP_ANONYMOUS | libc::MAP_NORESERVE, -1, 0);
                            if p == libc::MAP_FAILED {
                                BUSY[i].store(false, Ordering::Release);
                                break;
                            }
                            b = p as usize;
                            BASE[i].store(b, Ordering::Relaxed);
                        }
                        return b as *mut u8;
                    }
                }
            }
        }
        System.alloc(l)
    }
    unsafe fn dealloc(&self, ptr: *mut u8, l: Layout) {
        if l.size() >= BIG_MIN {
            if let Some(i) = slot_of(ptr) {
                BUSY[i].store(false, Ordering::Release);
                return;
            }
        }
        System.dealloc(ptr, l)
    }
    unsafe fn alloc_zeroed(&self, l: Layout) -> *mut u8 {
        if l.size() >= BIG_MIN {
            // regions may hold stale data from an earlier use: fall back to the system
            return System.alloc_zeroed(l);
        }
        System.alloc_zeroed(l)
    }
    unsafe fn realloc(&self, ptr: *mut u8, l: Layout, new_size: usize) -> *mut u8 {
        if l.size() >= BIG_MIN {
            if slot_of(ptr).is_some() {
                if new_size <= BIG_CAP && new_size >= BIG_MIN {
                    return ptr;
                }
                let nl = Layout::from_size_align_unchecked(new_size, l.align());
                let np = self.alloc(nl);
                if !np.is_null() {
                    std::ptr::copy_nonoverlapping(ptr, np, l.size().min(new_size));
                    self.dealloc(ptr, l);
                }
                return np;
            }
        }
        if new_size >= BIG_MIN {
            let nl = Layout::from_size_align_unchecked(new_size, l.align());
            let np = self.alloc(nl);
            if !np.is_null() {
                std::ptr::copy_nonoverlapping(ptr, np, l.size().min(new_size));
                self.dealloc(ptr, l);
            }
            return np;
        }
        System.realloc(ptr, l, new_size)
    }
}
