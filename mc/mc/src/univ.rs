//! Materialised universes shared by the checks.
use refmodel::gen;
use refmodel::RVal;
use std::sync::OnceLock;

pub fn d2() -> &'static Vec<RVal> {
    static V: OnceLock<Vec<RVal>> = OnceLock::new();
    V.get_or_init(gen::d2)
}
pub fn d1q() -> &'static Vec<RVal> {
    static V: OnceLock<Vec<RVal>> = OnceLock::new();
    V.get_or_init(|| gen::d1(2))
}
pub fn d1() -> &'static Vec<RVal> {
    static V: OnceLock<Vec<RVal>> = OnceLock::new();
    V.get_or_init(|| gen::d1(3))
}
pub fn p5() -> &'static Vec<RVal> {
    static V: OnceLock<Vec<RVal>> = OnceLock::new();
    V.get_or_init(gen::p5)
}
pub fn d2k() -> &'static gen::Uni {
    static V: OnceLock<gen::Uni> = OnceLock::new();
    V.get_or_init(gen::d2k_uni)
}
pub fn d3() -> &'static gen::Uni {
    static V: OnceLock<gen::Uni> = OnceLock::new();
    V.get_or_init(gen::d3_uni)
}
pub fn d3x() -> &'static gen::Uni {
    static V: OnceLock<gen::Uni> = OnceLock::new();
    V.get_or_init(gen::d3x_uni)
}
pub fn b64_all() -> &'static Vec<refmodel::RNum> {
    static V: OnceLock<Vec<refmodel::RNum>> = OnceLock::new();
    V.get_or_init(|| gen::b64(true))
}
pub fn b64_finite() -> &'static Vec<refmodel::RNum> {
    static V: OnceLock<Vec<refmodel::RNum>> = OnceLock::new();
    V.get_or_init(|| gen::b64(false))
}
pub fn sstr() -> &'static Vec<String> {
    static V: OnceLock<Vec<String>> = OnceLock::new();
    V.get_or_init(gen::sstr)
}

/// i-th Unicode scalar value (0 .. 1_112_064)
pub fn nth_char(i: u64) -> char {
    let cp = if i < 0xD800 { i } else { i + 0x800 };
    char::from_u32(cp as u32).unwrap()
}
pub const N_CHARS: u64 = 0x110000 - 0x800;

/// does a container have >= 2 children with different payload widths, or a nested container?
pub fn width_nontrivial(v: &RVal) -> bool {
    fn w(v: &RVal) -> usize {
        refmodel::layout::enc(v).len()
    }
    match v {
        RVal::Arr(a) => {
            a.iter().any(|x| x.is_container())
                || (a.len() >= 2 && a.iter().map(w).collect::<std::collections::BTreeSet<_>>().len() >= 2)
        }
        RVal::Obj(o) => {
            o.values().any(|x| x.is_container())
                || (o.len() >= 2
                    && o.iter()
                        .map(|(k, x)| k.len() * 1000 + w(x))
                        .collect::<std::collections::BTreeSet<_>>()
                        .len()
                        >= 2)
        }
        _ => false,
    }
}
