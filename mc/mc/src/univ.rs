//! Materialised universes shared by the checks.
use refmodel::gen;
use refmodel::RVal;
use std::sync::OnceLock;

pub fn d2() -> &'static Vec<RVal> {
    static V: OnceLock<Vec<RVal>> = OnceLock::new();
    V.get_or_init(gen::d2)
}
pub fn d1q() -> &'static Vec<RVal> {
    static V: OnceLock<Vec<RVal>> = OnceLock::new();
    V.get_or_init(|| gen::d1(2))
}
pub fn d1() -> &'static Vec<RVal> {
    static V: OnceLock<Vec<RVal>> = OnceLock::new();
    V.get_or_init(|| gen::d1(3))
}
pub fn p5() -> &'static Vec<RVal> {
    static V: OnceLock<Vec<RVal>> = OnceLock::new();
    V.get_or_init(gen::p5)
}
pub fn d2k() -> &'static gen::Uni {
    static V: OnceLock<gen::Uni> = OnceLock::new();
    V.get_or_init(gen::d2k_uni)
}
pub fn d3() -> &'static gen::Uni {
    static V: OnceLock<gen::Uni> = OnceLock::new();
    V.get_or_init(gen::d3_uni)
}
pub fn d3x() -> &'static gen::Uni {
    static V: OnceLock<gen::Uni> = OnceLock::new();
    V.get_or_init(gen::d3x_uni)
}
pub fn b64_all() -> &'static Vec<refmodel::RNum> {
    static V: OnceLock<Vec<refmodel::RNum>> = OnceLock::new();
    V.get_or_init(|| gen::b64(true))
}
pub fn b64_finite() -> &'static Vec<refmodel::RNum> {
    static V: OnceLock<Vec<refmodel::RNum>> = OnceLock::new();
    V.get_or_init(|| gen::b64(false))
}
pub fn sstr() -> &'static Vec<String> {
    static V: OnceLock<Vec<String>> = OnceLock::new();
    V.get_or_init(gen::sstr)
}

/// i-th Unicode scalar value (0 .. 1_112_064)
pub fn nth_char(i: u64) -> char {
    let cp = if i < 0xD800 { i } else { i + 0x800 };
    char::from_u32(cp as u32).unwrap()
}
pub const N_CHARS: u64 = 0x110000 - 0x800;

/// does a container have >= 2 children with different payload widths, or a nested container?
pub fn width_nontrivial(v: &RVal) -> bool {
    fn w(v: &RVal) -> usize {
        refmodel::layout::enc(v).len()
    }
    match v {
        RVal::Arr(a) => {
            a.iter().any(|x| x.is_container())
                || (a.len() >= 2 && a.iter().map(w).collect::<std::collections::BTreeSet<_>>().len() >= 2)
        }
        RVal::Obj(o) => {
            o.values().any(|x| x.is_container())
                || (o.len() >= 2
                    && o.iter()
                        .map(|(k, x)| k.len() * 1000 + w(x))
                        .collect::<std::collections::BTreeSet<_>>()
                        .len()
                        >= 2)
        }
        _ => false,
    }
}

/// number-encoding variants used by the relation checks
pub fn num_variants(nonfinite: bool) -> Vec<RVal> {
    let mut v = vec![
        RVal::u(0),
        RVal::f(0.0),
        RVal::f(-0.0),
        RVal::u(1),
        RVal::Num(refmodel::RNum::I(1)),
        RVal::f(1.0),
        RVal::i(-1),
        RVal::f(-1.0),
        RVal::u(2),
        RVal::f(1.5),
        RVal::f(-1.5),
        RVal::f(-0.5),
        RVal::i(-2),
        RVal::f(-2.5),
        RVal::u(1 << 53),
        RVal::f(9007199254740992.0),
        RVal::u((1 << 53) + 1),
        RVal::Num(refmodel::RNum::I((1 << 53) + 1)),
        RVal::f(9007199254740994.0),
        RVal::u(1 << 63),
        RVal::f(9223372036854775808.0),
        RVal::i(i64::MIN),
        RVal::f(-9223372036854775808.0),
        RVal::u(u64::MAX),
        RVal::f(18446744073709551616.0),
    ];
    if nonfinite {
        v.push(RVal::f(f64::NAN));
        v.push(RVal::f(f64::INFINITY));
        v.push(RVal::f(f64::NEG_INFINITY));
    }
    v
}

fn dedup(v: Vec<RVal>) -> Vec<RVal> {
    let mut seen = std::collections::HashSet::new();
    v.into_iter().filter(|x| seen.insert(x.clone())).collect()
}

/// universe for the relation checks (compare / contains / comparable key): base documents,
/// number-encoding variants at the root and nested one and two levels down, prefix-sharing
/// arrays and objects, containers differing only in length or deep inside.
pub fn relation_universe(base: &[RVal], nonfinite: bool) -> Vec<RVal> {
    let mut out: Vec<RVal> = base.to_vec();
    let nv = num_variants(nonfinite);
    for n in &nv {
        out.push(n.clone());
        out.push(RVal::Arr(vec![n.clone()]));
        out.push(RVal::Arr(vec![RVal::u(1), n.clone()]));
        out.push(RVal::obj(vec![("a", n.clone())]));
        out.push(RVal::Arr(vec![RVal::Arr(vec![n.clone()])]));
        out.push(RVal::obj(vec![("a", RVal::obj(vec![("b", n.clone())]))]));
        out.push(RVal::Arr(vec![RVal::obj(vec![("a", n.clone())]), RVal::Null]));
        // a number followed by further siblings: walkers must step over ITS width, on each side
        for tail in [RVal::s("w"), RVal::s("x"), RVal::u(7)] {
            out.push(RVal::Arr(vec![n.clone(), tail.clone()]));
            out.push(RVal::obj(vec![("a", n.clone()), ("b", tail.clone())]));
            out.push(RVal::Arr(vec![RVal::Arr(vec![n.clone()]), tail.clone()]));
            out.push(RVal::obj(vec![("a", RVal::obj(vec![("k", n.clone())])), ("b", tail.clone())]));
        }
    }
    // prefix-sharing arrays / objects
    let elems = [RVal::Null, RVal::u(1), RVal::s("a"), RVal::s("ab"), RVal::s(""), RVal::Bool(true), RVal::Bool(false), RVal::arr(vec![]), RVal::obj(vec![])];
    for a in &elems {
        for b in &elems {
            out.push(RVal::Arr(vec![a.clone(), b.clone()]));
            out.push(RVal::Arr(vec![a.clone(), b.clone(), a.clone()]));
            out.push(RVal::obj(vec![("a", a.clone()), ("ab", b.clone())]));
            out.push(RVal::obj(vec![("", a.clone()), ("b", b.clone())]));
        }
        out.push(RVal::Arr(vec![a.clone()]));
        out.push(RVal::obj(vec![("ab", a.clone())]));
        out.push(RVal::obj(vec![("é", a.clone())]));
    }
    for s in ["", "a", "A", "ab", "b", "é", "a\u{1}", "a\u{1}\u{3}", "\u{0}", "💎"] {
        out.push(RVal::s(s));
        out.push(RVal::Arr(vec![RVal::s(s), RVal::s("b")]));
    }
    out.push(RVal::Bool(true));
    out.push(RVal::Bool(false));
    dedup(out)
}

/// replace every number equal to 1 by `to`
pub fn retype_ones(v: &RVal, to: &RVal) -> RVal {
    match v {
        RVal::Num(n) if refmodel::val::num_cmp(n, &refmodel::RNum::U(1)) == std::cmp::Ordering::Equal => to.clone(),
        RVal::Arr(a) => RVal::Arr(a.iter().map(|x| retype_ones(x, to)).collect()),
        RVal::Obj(o) => RVal::Obj(o.iter().map(|(k, x)| (k.clone(), retype_ones(x, to))).collect()),
        x => x.clone(),
    }
}

/// documents derived from `a` the way C12 asks: drop one member/element, reorder, duplicate,
/// nest one level deeper / shallower
pub fn derived(a: &RVal) -> Vec<RVal> {
    let mut out = vec![];
    match a {
        RVal::Arr(x) => {
            for i in 0..x.len() {
                let mut y = x.clone();
                y.remove(i);
                out.push(RVal::Arr(y));
                if x[i].is_container() {
                    out.push(x[i].clone());
                }
            }
            if x.len() >= 2 {
                let mut y = x.clone();
                y.reverse();
                out.push(RVal::Arr(y));
            }
            if !x.is_empty() {
                let mut y = x.clone();
                y.push(x[0].clone());
                out.push(RVal::Arr(y));
            }
            out.push(RVal::Arr(vec![a.clone()]));
        }
        RVal::Obj(o) => {
            for k in o.keys() {
                let mut y = o.clone();
                y.remove(k);
                out.push(RVal::Obj(y));
                if o[k].is_container() {
                    out.push(o[k].clone());
                }
            }
            out.push(RVal::obj(vec![("a", a.clone())]));
            out.push(RVal::Arr(vec![a.clone()]));
        }
        s => {
            out.push(RVal::Arr(vec![s.clone()]));
            out.push(RVal::Arr(vec![s.clone(), s.clone()]));
        }
    }
    out
}

pub fn containment_universe(base: &[RVal], retype_max_nodes: usize) -> Vec<RVal> {
    let mut out = relation_universe(base, true);
    let one_f = RVal::f(1.0);
    let one_i = RVal::Num(refmodel::RNum::I(1));
    for a in base {
        if a.node_count() <= retype_max_nodes {
            out.push(retype_ones(a, &one_f));
            out.push(retype_ones(a, &one_i));
            for d in derived(a) {
                out.push(d);
            }
        }
    }
    dedup(out)
}
