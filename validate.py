#!/usr/bin/env python3-vt
# validates MANIFEST.json and every evidence file against the given schemas
import json, jsonschema, glob, sys
ok = True
try:
    jsonschema.validate(json.load(open('/verif/MANIFEST.json')), json.load(open('/root/.vp/MANIFEST.schema.json')))
    print('MANIFEST ok')
except Exception as e:
    ok = False; print('MANIFEST INVALID', str(e)[:300])
sch = json.load(open('/root/.vp/EVIDENCE.schema.json'))
for f in sorted(glob.glob('/verif/evidence/*.json')+glob.glob('/verif/evidence/*/*.json')):
    try:
        jsonschema.validate(json.load(open(f)), sch); print(f, 'ok')
    except Exception as e:
        ok = False; print(f, 'INVALID', str(e)[:300])
sys.exit(0 if ok else 1)
