#!/bin/sh
# runs every check at the given tier, prints one line per property
TIER="${1:-quick}"
for i in 01 02 03 04 05 06 07 08 09 10 11 12 13 14 15 16 17 18 19 20; do
  s=$(date +%s)
  out=$(./run_check.sh C$i $TIER 2>&1); code=$?
  e=$(date +%s)
  echo "C$i exit=$code $((e-s))s $(echo "$out" | grep -c '^VIOLATION') violations, $(echo "$out" | grep -c '^KNOWN-FINDING') known"
done
