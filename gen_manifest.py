#!/usr/bin/env python3
"""Regenerates MANIFEST.json from the table below (kept in one place so it is always valid)."""
import json
props=[json.loads(l) for l in open('/verif/properties.jsonl')]
# id -> (technique, level text, level note)
CLAIMED={
 'C09':("exhaustive language enumeration (LANG): every AST of a bounded grammar fragment in every rendering variant, every token string up to a length bound, every single-token corruption, against an independent three-valued parser",
        "~8k ASTs x all spacing/case/quoting variants must parse to the intended structure and survive print->parse; every token string of length<=4/5 over 36 tokens and every single-token corruption judged by the core/liberal model grammars; every Unicode scalar value in member names; numbers around every width boundary as indices and literals; never a panic",
        "bounded AST size and token-string length; inputs between the core and liberal grammars are not judged"),
 'C16':("exhaustive language enumeration (LANG) for key paths against an independent three-valued parser",
        "every list of <=3 elements in all spacing variants, every token string of length<=6/7 over 14 tokens, every single-token corruption, every Unicode scalar value in plain and quoted names, numbers around every width boundary; print->parse",
        "bounded list length and token-string length"),

 'C11':("exhaustive enumeration of inputs x configurations (all 2^k text/binary choices), relational oracle",
        "every text of the corpus through every document-taking function in text and binary form with every derived argument; all four configurations for two-document functions on every ordered pair of a subset",
        "bounded corpus; what a text denotes is decided by the model parser"),

 'C02':("exhaustive language enumeration (LANG): all token strings up to a length bound, all single-token corruptions, all spelling variants, against an independent recogniser/evaluator",
        "every token string of length<=5/6 over a 32-token alphabet, every single-token corruption of every well-formed rendering, every whitespace/number/escape spelling, every \\uXXXX code unit, every surrogate-pair escape, every Unicode scalar value, all 256 byte values inserted/substituted at every position",
        "bounded token-string length; numbers limited to the spelling list (correct rounding checked against Rust std's parser)"),

 'C20':("exhaustive ascending depth sweep in crash-isolated worker processes (every depth up to a bound, then a fixed grid) plus exhaustive enumeration of extreme integer arguments",
        "every nesting depth 1..1024/4096 for 16 operations x 3 shapes x 2 pinned stack sizes in workers whose death is attributed to the announced case; grid to 300k; extreme i32 arguments (thorough: all 2^32) with overflow checks on",
        "between grid points above the exhaustive bound depths are not covered; results are mem::forget-ed so recursive Drop is outside the operation under test"),

 'C07':("explicit-state breadth-first search over the real transition functions (histories), cross-checked with a stateright model of the same transition system",
        "all chains of library operations up to depth 3/4 from the initial documents (small universe + hand-shaped and 40-member seeds); every state deduplicated on full bytes; every transition validated against the tree model and the strict validator; stateright BFS must agree on unique-state count and verdict at depth 2",
        "depth bound and successor size cap (checked but not expanded beyond the cap)"),

 'C08':("exhaustive enumeration of programs x inputs (paths up to a step bound x document universe) against an independent tree evaluator",
        "every path of the enumerated grammar fragments applied to every document of the universe/subset (built from the model AST and, where jsonb's parser reads the text differently, as parsed); item sequences compared in order with repetitions; three-valued where the README is silent; arithmetic that certainly has to be evaluated must be an error",
        "bounded path length (<=3/4 steps, one filter per path, expression depth<=2) and document universe"),
 'C15':("exhaustive enumeration of programs x inputs x configurations (4 modes, 11 entry points), relational oracle",
        "the C08 enumeration evaluated through all modes and convenience functions and related to each other",
        "bounded as C08; relational oracle needs no model"),

 'C03':("bounded-exhaustive enumeration of documents, all Unicode scalar values and complete float pattern sets against an independent strict RFC 8259 parser",
        "both renderings of every document are parsed by the independent strict parser and compared with the document; pretty layout derived from the compact tokens",
        "bounded universes; floats: complete 2^16 / 2^32 pattern sets, not all 2^64"),
 'C05':("bounded-exhaustive enumeration of documents x derived arguments against tree semantics",
        "every accessor on every document with every argument derived from it; sub-values compared with the model encoder and strictly validated",
        "bounded universes (depth<=3, width<=3)"),
 'C06':("bounded-exhaustive enumeration of documents/pairs x derived arguments against tree edits",
        "every editor with every derived argument; all ordered pairs for binary functions; builders over all lists of <=3 parts",
        "bounded universes"),
 'C10':("exhaustive fault enumeration: every fault of the alphabet at every offset, then every ordered pair (deviation bound 2), plus all short raw byte strings",
        "every single fault at every offset of every corpus document, every ordered fault pair on short documents, every byte string of length<=3 (thorough: all 2^32 4-byte strings), text fallback corpus; giant counts in crash-isolated workers",
        "three or more simultaneous faults and documents longer than the corpus are not covered"),
 'C17':("exhaustive enumeration of function x input x prior-buffer combinations plus explicit-state BFS over call batches into one buffer",
        "every buffer-writing function on every document with 8 prior buffer contents; BFS over batches (state = whole buffer + offsets) to depth 3/4",
        "bounded universe and batch depth"),

 'C01':("bounded-exhaustive enumeration of values (SWEEP) against an independent layout encoder/strict validator",
        "every value of the stated universes is encoded by the real encoder and compared byte-for-byte with an independent encoder written from the README, decoded by both decoders, re-encoded and strictly validated",
        "holds for the enumerated universes (depth<=3, width<=3, all code points singly, B64 numbers, chains<=64); the README transcription in refmodel::layout is trusted"),
 'C04':("exhaustive pair/triple relation check (full matrix) against the documented order",
        "the full compare relation over the universe is enumerated; every pair is compared with the model order and the total-preorder laws are decided for all triples on the implementation's own matrix",
        "bounded universe (~2.7k/5.7k documents); text rendering by the model printer"),
 'C12':("exhaustive pair/triple relation check (full matrix) against the @> rules",
        "every ordered pair of the containment universe against the model rules; reflexivity/transitivity for all triples by bit-set closure on the implementation's matrix",
        "bounded universe (~3.5k/9k documents)"),
 'C13':("exhaustive enumeration of list pairs against a multiset model plus algebraic laws",
        "all lists up to length 3/4 over a 13-element collision alphabet, all ordered pairs; a second universe with every operand in four forms (model bytes, own-encoder bytes, text, escaped text)",
        "bounded list length and alphabet"),
 'C14':("exhaustive pair relation check: key order vs compare, with model of the documented key format to classify findings",
        "every ordered pair of the universe; relational oracle (key order == compare), two recorded design-level findings identified by deviation class",
        "bounded universe; compare itself is decided by C04"),
 'C18':("exhaustive enumeration of number sub-universes (all 2^32 u32/i32/f32/f64-high-word patterns), all byte strings <=3 bytes, full order matrix on a boundary set",
        "complete 2^16 (quick) / 2^32 (thorough) codec sub-universes, every malformed byte string of length<=3, the full order relation and all triples on B64",
        "64-bit values outside B64 and the 2^32 sub-universes are not covered; no sampling is used"),
 'C19':("bounded-exhaustive enumeration of documents with structural comparison against the strict parser/model",
        "every finite-number document of the universes through all four conversions",
        "bounded universes"),
}
NOT_YET="check not built yet in this framework; it will be claimed once its exhaustive check exists (no technique switch planned)"
SWEEPS={'C01','C03','C04','C05','C06','C08','C11','C12','C13','C14','C15','C17','C19'}
checks=[]
for p in props:
    i=p['id']
    if i in CLAIMED:
        t,l,n=CLAIMED[i]
        if i in SWEEPS:
            l+="; in addition the one-dimensional exhaustive families of DESIGN §7.2b: the scale universe (counts/lengths/offsets across 2^8, 2^16, 2^20), the size sweep (every N up to 1,100 quick / 4,200 thorough, then 2^k-1, 2^k, 2^k+1 up to 2^17) and, where the oracle is per document or relational, the depth sweep (every depth 1..300)"
            n+="; thresholds beyond the swept sizes/depths, or needing two large dimensions at once, are not covered"
        checks.append({"property_id":i,"quick_cmd":f"./run_check.sh {i} quick","thorough_cmd":f"./run_check.sh {i} thorough",
          "evidence_file":f"/verif/evidence/{i}.json","replay_cmd_template":"./mc/target/release/mc replay {path}","engine":"mc",
          "level_claimed":{"category":"model_checking","text":l,"design_ref":f"DESIGN.md Part 3, {i}"},
          "level_note":n,"technique":t})
m={"version":1,
 "setup_cmd":"cd /verif/mc && CARGO_NET_OFFLINE=true CARGO_TARGET_DIR=/verif/mc/target cargo build --release --offline",
 "hooks":{"guard":"jsonb_verif","enable":"no hooks are needed: every property is observable through the public API; the harness links /repo as a cargo path dependency and is rebuilt by every check command","baseline_off_cmd":"cd /repo && cargo test --workspace --no-fail-fast --offline","source_commits":[],"add_only":True},
 "engines":[{"name":"mc","path":"/verif/mc","serves_properties":sorted(CLAIMED),"kind_free_text":"Rust harness (cargo workspace): exhaustive SWEEP / BFS / FAULT / LANG / ISOLATE engines that call the real jsonb functions and compare every execution with the independent reference model crate `refmodel`"}],
 "checks":checks,
 "not_applicable":[{"property_id":p['id'],"reason":NOT_YET} for p in props if p['id'] not in CLAIMED],
 "notes":"See DESIGN.md. Known findings: known_findings.json. Exit codes: 0 held, 1 violation (VIOLATION line), 2 machinery failure. evidence/<id>.json is rewritten by every run; evidence/quick/<id>.json and evidence/thorough/<id>.json keep the last run of each tier. seeded/ holds 477 confirmed property-breaking changes (13 rounds) with the checks that report them (DESIGN §7.5-§7.15, §7.17, §7.18)."}
json.dump(m,open('/verif/MANIFEST.json','w'),indent=1)
print("claimed",len(checks),"not_applicable",len(m['not_applicable']))
