#!/bin/sh
# usage: run_check.sh <PROPERTY-ID> <quick|thorough>
# Rebuilds the harness against /repo's current working tree (jsonb is a path dependency), then
# runs the exhaustive exploration for one property.  Exit 0 = held on everything explored,
# 1 = violation (VIOLATION line printed), 2 = machinery/build failure (never a verdict).
set -u
ID="$1"; TIER="${2:-quick}"
ROOT="$(cd "$(dirname "$0")" && pwd)"
export VERIF_ROOT="$ROOT"
export CARGO_NET_OFFLINE=true
export CARGO_TARGET_DIR="$ROOT/mc/target"
cd "$ROOT/mc" || exit 2
if ! cargo build --release --offline -q 2>"$ROOT/mc/target.build.log"; then
  echo "MACHINERY: build failed (not a verdict)"; tail -n 30 "$ROOT/mc/target.build.log"; exit 2
fi
exec "$ROOT/mc/target/release/mc" check "$ID" --tier "$TIER"
